"""C13: change detection by hashes is sound.

Correspondence: sha256(model stream) == digest computed by the implementation
(`StepHash.from_inp`, `with_out_hashes`), and `FileHash.refreshed` on real files against the
model's decision.  Oracle: pairs of configurations that differ in exactly one ingredient must
have different digests, permutations equal digests, JSON round trips, stat-change detection.
"""

from __future__ import annotations

import attrs
import hashlib
import os
import shutil
import tempfile

import common
import implkit  # noqa: F401  (puts /repo first on sys.path)
from common import Finding

from stepup.core.hash import FileHash, StepHash

PID = "C13"
LEVEL = "proof"
ASSUMPTIONS = [
    "SHA-256 is injective on the byte strings that occur (theorems are about the string fed to it)",
    "Python sorts str by code points = byte order of the UTF-8 encoding (model sorts UTF-8 bytes)",
    "json/cattrs round trips of floats and bytes are checked by the oracle only, not modelled",
    "ABA: content that changes while mtime, size, inode and mode all stay equal is not observable "
    "by the mechanism (theorem refreshed_same_stat_keeps states this limit)",
]

WORDS = ["a", "b", "ab", "a/b", "u", "", "x y", "é", "中", "__env_vars__", "__env_overrides__", "__inp_paths__",
         "__shell__", "\x01", "\x02", "a\x01b", "A", "0", "cmd  # wd=sub/", "PATH", "HOME", "X",
         "caf\u00e9", "cafe\u0301", "\u212b", "\u00c5", "A\u030a", "\ufb01", "fi", "\u00a0", " ", "\u2126", "\u03a9"]


def word(r, nonempty=False) -> str:
    while True:
        k = r.random()
        if k < 0.6:
            w = r.choice(WORDS)
        else:
            w = "".join(r.choice("ab_/é\x01u~e\u0301") for _ in range(r.randint(0, 4)))
        if w or not nonempty:
            return w


def file_hash(r) -> FileHash:
    k = r.random()
    if k < 0.15:
        return FileHash.unknown()
    if k < 0.2:
        return FileHash(b"u", r.choice([0, 0o644]), 0.0, r.choice([0, 3]), 0)
    digest = bytes(r.getrandbits(8) for _ in range(32))
    if k < 0.3:
        digest = b"u\x00\x01" + digest[3:]
    mode = r.choice([0o100644, 0o100755, 0, 1, 2**63, 2**64 - 1, 256, 255])
    size = r.choice([0, 1, 255, 256, 65536, 2**40 + 7, 2**64 - 1, r.getrandbits(20)])
    return FileHash(digest, mode, float(r.randint(0, 5)), size, r.randint(0, 5))


def gen_cfg(r) -> dict:
    nf, ne, no = r.choice([0, 1, 1, 2, 3]), r.choice([0, 0, 1, 2]), r.choice([0, 0, 1, 2])
    files = {}
    while len(files) < nf:
        files[word(r, True)] = file_hash(r)
    envs = {}
    while len(envs) < ne:
        envs[word(r, True)] = None if r.random() < 0.3 else word(r)
    ovr = {}
    while len(ovr) < no:
        n = word(r, True)
        if n not in envs:
            ovr[n] = word(r)
    return {"label": word(r), "shell": r.random() < 0.5, "files": files, "envs": envs, "ovr": ovr}


def shuffled(r, d: dict) -> dict:
    items = list(d.items())
    r.shuffle(items)
    return dict(items)


def hx(b: bytes) -> str:
    return b.hex() if b else "-"


def files_tok(files: dict) -> str:
    if not files:
        return "."
    return ",".join(f"{hx(p.encode())}/{h.mode}/{h.size}/{hx(h.digest)}" for p, h in files.items())


def inp_line(c: dict) -> str:
    envs = ",".join(f"{hx(n.encode())}/{'~' if v is None else hx(v.encode())}" for n, v in c["envs"].items()) or "."
    ovr = ",".join(f"{hx(n.encode())}/{hx(v.encode())}" for n, v in c["ovr"].items()) or "."
    return f"c13 inp {hx(c['label'].encode())} {int(c['shell'])} {files_tok(c['files'])} {envs} {ovr}"


def impl_inp(c: dict, explained=False) -> bytes:
    return StepHash.from_inp(c["label"], c["files"], c["envs"], explained=explained, shell=c["shell"],
                             env_overrides=c["ovr"]).inp_digest


def impl_out(files: dict) -> bytes:
    return StepHash.from_inp("x", {}, {}, explained=False).with_out_hashes(files).out_digest


def describe(c: dict) -> dict:
    return {"label": c["label"], "shell": c["shell"],
            "files": {p: [h.digest.hex(), h.mode, h.size] for p, h in c["files"].items()},
            "envs": c["envs"], "ovr": c["ovr"]}


def sha(hexstr: str) -> bytes:
    return hashlib.sha256(b"" if hexstr == "-" else bytes.fromhex(hexstr)).digest()


async def correspond(ctx):
    r = ctx.rng("corr")
    st = ctx.stats
    st.rule = ("configurations drawn from a word pool containing the section keywords, empty strings, control "
               "characters, non-ASCII, unknown and crafted digests, 64-bit boundary modes/sizes, in shuffled dict "
               "order; non-trivial = at least one file, variable or override; distinct by full configuration")
    n = ctx.budget(3000, 60000)
    cfgs = [gen_cfg(r) for _ in range(n)]
    lines = []
    for c in cfgs:
        c["files"], c["envs"], c["ovr"] = shuffled(r, c["files"]), shuffled(r, c["envs"]), shuffled(r, c["ovr"])
        lines.append(inp_line(c))
        lines.append(f"c13 out {files_tok(c['files'])}")
    ans = common.run_driver(lines)
    for i, c in enumerate(cfgs):
        nontrivial = bool(c["files"] or c["envs"] or c["ovr"])
        st.case(("inp", lines[2 * i]), nontrivial)
        st.count("inp.files=%d" % len(c["files"]))
        st.count("inp.envs=%d" % len(c["envs"]))
        st.count("inp.ovr=%d" % len(c["ovr"]))
        try:
            got = impl_inp(c, explained=bool(i % 2))
        except Exception as exc:  # e.g. OverflowError: never for generated values < 2**64
            got = f"exc:{type(exc).__name__}"
        want = sha(ans[2 * i]) if ans[2 * i] != "bad-op" else "bad-op"
        if got != want:
            ctx.disagree("from_inp", describe(c), ans[2 * i], got.hex() if isinstance(got, bytes) else got)
        try:
            got = impl_out(c["files"])
        except Exception as exc:
            got = f"exc:{type(exc).__name__}"
        want = sha(ans[2 * i + 1]) if ans[2 * i + 1] != "bad-op" else "bad-op"
        st.case(("out", lines[2 * i + 1]), bool(c["files"]))
        if got != want:
            ctx.disagree("with_out_hashes", describe(c)["files"], ans[2 * i + 1],
                         got.hex() if isinstance(got, bytes) else got)
        if i < 3:
            st.sample({"config": describe(c), "stream_hex": ans[2 * i][:160], "inp_digest": impl_inp(c).hex()})
    await correspond_refreshed(ctx)
    st.programs = 3


def _stat_tuple(path):
    s = os.stat(path)
    return s.st_mode, s.st_mtime, s.st_size, s.st_ino


async def correspond_refreshed(ctx):
    """`FileHash.refreshed` on real files versus the model's decision."""
    r = ctx.rng("refreshed")
    n = ctx.budget(150, 2000)
    tmp = tempfile.mkdtemp(prefix="verif-c13-")
    lines, impls, descs = [], [], []
    try:
        for i in range(n):
            path = os.path.join(tmp, f"f{i}")
            content = bytes(r.getrandbits(8) for _ in range(r.choice([0, 1, 5, 5, 64])))
            exists = r.random() < 0.85
            if exists:
                with open(path, "wb") as fh:
                    fh.write(content)
                os.chmod(path, r.choice([0o644, 0o755, 0o600]))
                t = float(r.randint(1_000_000, 1_000_005))
                os.utime(path, (t, t))
                mode, mtime, size, ino = _stat_tuple(path)
            # the record: equal to the file, or differing in chosen fields, or unknown
            k = r.random()
            true_digest = hashlib.sha256(content).digest()
            if k < 0.15 or not exists and k < 0.5:
                rec = FileHash.unknown()
            else:
                if not exists:
                    mode, mtime, size, ino = 0o100644, 1_000_000.0, len(content), 12345
                rd = true_digest if r.random() < 0.6 else bytes(32)
                rec = FileHash(rd,
                               mode if r.random() < 0.7 else mode ^ 0o111,
                               mtime if r.random() < 0.6 else mtime + 1.0,
                               size if r.random() < 0.7 else size + 1,
                               ino if r.random() < 0.8 else ino + 1)
            try:
                new = rec.refreshed(path)
                got = f"{hx(new.digest)} {new.mode} {new.mtime!r} {new.size} {new.inode} {int(new == rec)}"
            except Exception as exc:
                got = f"exc:{type(exc).__name__}"
            # times are mapped to small naturals for the model (only equality matters)
            times = {0.0: 0}

            def tnum(x):
                return times.setdefault(x, len(times))

            st_tok = "none"
            if exists:
                m2, t2, s2, i2 = _stat_tuple(path)
                st_tok = f"{m2}/{tnum(t2)}/{s2}/{i2}"
            line = (f"c13 refreshed {hx(rec.digest)} {rec.mode} {tnum(rec.mtime)} {rec.size} {rec.inode} "
                    f"{st_tok} {hx(true_digest)}")
            inv = {v: k_ for k_, v in times.items()}
            lines.append(line)
            impls.append((got, inv))
            descs.append({"exists": exists, "record": [rec.digest.hex(), rec.mode, rec.mtime, rec.size, rec.inode],
                          "stat": st_tok})
        ans = common.run_driver(lines)
        for line, (got, inv), a, d in zip(lines, impls, ans, descs):
            ctx.stats.case(("refreshed", line), d["exists"])
            ctx.stats.count("refreshed." + ("exists" if d["exists"] else "missing"))
            if a == "bad-op":
                model = a
            else:
                dg, m, t, s, i, same = a.split(" ")
                model = f"{dg} {m} {inv[int(t)]!r} {s} {i} {same}"
            if model != got:
                ctx.disagree("FileHash.refreshed", d, model, got)
    finally:
        shutil.rmtree(tmp, ignore_errors=True)


# ---------------------------------------------------------------------------------------------
# Oracle on the implementation alone
# ---------------------------------------------------------------------------------------------

F1 = ({"label": "cmd", "shell": False, "files": {}, "envs": {"__env_overrides__": "X"}, "ovr": {}},
      {"label": "cmd", "shell": False, "files": {}, "envs": {}, "ovr": {"X": "__env_overrides__"}})


def f2_pair():
    d = b"u\x00\x01abcdef\x00\x00" + bytes(8) + b"\x00\x00" + bytes(8) + b"\x00\x00u"
    return ({"a": FileHash.unknown(), "abcdef": FileHash.unknown()}, {"a": FileHash(d, 0, 0.0, 0, 0)})


def mutate_one(r, c: dict):
    """Return (what, c') where c' differs from c in exactly one ingredient."""
    c2 = {"label": c["label"], "shell": c["shell"], "files": dict(c["files"]), "envs": dict(c["envs"]),
          "ovr": dict(c["ovr"])}
    choices = ["label", "shell", "add_file", "add_env", "add_ovr"]
    if c["files"]:
        choices += ["digest", "mode", "size", "path", "del_file"] * 2
    if c["envs"]:
        choices += ["env_value", "env_def", "env_name", "del_env"]
    if c["ovr"]:
        choices += ["ovr_value", "ovr_name", "del_ovr"]
    if c["envs"] or c["ovr"]:
        choices += ["move_env_ovr"]
    what = r.choice(choices)
    if what == "label":
        c2["label"] = c["label"] + r.choice(["x", "  # wd=sub/", " ", "\u0301", "\u00a0"])
        if r.random() < 0.3:
            import unicodedata

            alt = unicodedata.normalize(r.choice(["NFC", "NFD", "NFKC"]), c["label"])
            if alt != c["label"]:
                c2["label"] = alt
    elif what == "shell":
        c2["shell"] = not c["shell"]
    elif what in ("digest", "mode", "size", "path", "del_file"):
        p = r.choice(sorted(c["files"]))
        h = c["files"][p]
        if what == "digest":
            nd = bytes([h.digest[0] ^ 1]) + h.digest[1:] if len(h.digest) == 32 else bytes(32)
            c2["files"][p] = FileHash(nd, h.mode, h.mtime, h.size, h.inode)
        elif what == "mode":
            c2["files"][p] = FileHash(h.digest, h.mode ^ r.choice([1, 0o100, 2**40]), h.mtime, h.size, h.inode)
        elif what == "size":
            c2["files"][p] = FileHash(h.digest, h.mode, h.mtime, h.size ^ r.choice([1, 256, 2**33]), h.inode)
        elif what == "path":
            del c2["files"][p]
            q = p + "x"
            if q in c2["files"]:
                return None
            c2["files"][q] = h
        else:
            del c2["files"][p]
    elif what == "add_file":
        p = word(r, True)
        if p in c["files"]:
            return None
        c2["files"][p] = file_hash(r)
    elif what == "add_env":
        n = word(r, True)
        if n in c["envs"] or n in c["ovr"]:
            return None
        c2["envs"][n] = None if r.random() < 0.4 else word(r)
    elif what == "add_ovr":
        n = word(r, True)
        if n in c["envs"] or n in c["ovr"]:
            return None
        c2["ovr"][n] = word(r)
    elif what in ("env_value", "env_def", "env_name", "del_env"):
        n = r.choice(sorted(c["envs"]))
        v = c["envs"][n]
        if what == "env_value":
            c2["envs"][n] = (v or "") + "x"
        elif what == "env_def":
            c2["envs"][n] = "" if v is None else None
        elif what == "env_name":
            del c2["envs"][n]
            if n + "x" in c2["envs"] or n + "x" in c2["ovr"]:
                return None
            c2["envs"][n + "x"] = v
        else:
            del c2["envs"][n]
    elif what in ("ovr_value", "ovr_name", "del_ovr"):
        n = r.choice(sorted(c["ovr"]))
        v = c["ovr"][n]
        if what == "ovr_value":
            c2["ovr"][n] = v + "x"
        elif what == "ovr_name":
            del c2["ovr"][n]
            if n + "x" in c2["envs"] or n + "x" in c2["ovr"]:
                return None
            c2["ovr"][n + "x"] = v
        else:
            del c2["ovr"][n]
    elif what == "move_env_ovr":
        # the same (name, value) pair tracked as a variable versus set as an override
        if c["envs"]:
            n = r.choice(sorted(c["envs"]))
            v = c2["envs"].pop(n)
            if v is None:
                return None
            c2["ovr"][n] = v
        else:
            n = r.choice(sorted(c["ovr"]))
            c2["envs"][n] = c2["ovr"].pop(n)
    return what, c2


def same_cfg(a, b) -> bool:
    return describe(a) == describe(b)


def is_f1_shape(a, b) -> bool:
    """The collision class of finding F1: a variable or override named like the section keyword."""
    names = set(a["envs"]) | set(b["envs"]) | set(a["ovr"].values()) | set(b["ovr"].values())
    return "__env_overrides__" in names


def api_ingredients_oracle(ctx):
    """The ingredients of the step hash that a plan writes (tracked variables, `shell=`, `env_overrides=`) reach
    the director as written, for every API function that takes them and for `amend(env=...)`: a change that never
    arrives can never be detected."""
    import apicap

    r = ctx.rng("api-ingredients")
    names = ["VAR_A", "VAR_B", "MODE", "LANG2"]
    with apicap.project() as base:
        for i in range(ctx.budget(40, 400)):
            env = sorted(r.sample(names, r.randint(0, 3)))
            shell = r.random() < 0.5
            # a variable is either tracked or overridden (the API rejects both)
            over = {n: r.choice(["1", "x y", ""]) for n in r.sample(names, r.randint(0, 2)) if n not in env} or None
            wname = ["step", "run", "plan", "call", "script", "amend"][i % 6]
            with apicap.step_process(base) as (api, client):
                try:
                    if wname == "step":
                        api.step("true", env=env, shell=shell, env_overrides=over)
                    elif wname == "run":
                        api.run("./tool.py arg", env=env, shell=shell)
                    elif wname == "plan":
                        api.plan("./tool.py arg", env=env)
                    elif wname == "call":
                        api.call("./tool.py", "fn", env=env)
                    elif wname == "script":
                        api.script("./tool.py", env=env)
                    else:
                        api.amend(env=env)
                except Exception as exc:  # noqa: BLE001
                    ctx.finding(Finding(PID, f"ingredient-lost-in-api:{wname}:raises", f"{wname}(env={env}) raises {exc!r}",
                                        {"wrapper": wname, "env": env}))
                    continue
            ctx.stats.count(f"api-ingredients:{wname}")
            if wname == "amend":
                call = client.last("amend_step")
                sent_env = None if call is None else sorted(call[1][2])
                if (call is None and env) or (call is not None and sent_env != env):
                    ctx.finding(Finding(PID, "ingredient-lost-in-api:amend:env",
                                        f"amend(env={env}) reaches the director as amend_step(env={sent_env})",
                                        {"env": env, "sent": sent_env}))
                continue
            call = client.last("define_step")
            args = call[1] if call is not None else ()
            sent_env = sorted(args[3]) if len(args) > 3 else None
            # the variables substituted in the arguments are added by the API; none are used here
            if sent_env is None or not set(env) <= set(sent_env) or (set(sent_env) - set(env)):
                ctx.finding(Finding(PID, f"ingredient-lost-in-api:{wname}:env",
                                    f"{wname}(env={env}) reaches the director as define_step(env={sent_env})",
                                    {"wrapper": wname, "env": env, "sent": sent_env}))
            if wname in ("step", "run"):
                sent_shell = args[9] if len(args) > 9 else call[2].get("shell")
                if bool(sent_shell) != shell:
                    ctx.finding(Finding(PID, f"ingredient-lost-in-api:{wname}:shell",
                                        f"{wname}(shell={shell}) reaches the director as define_step(shell={sent_shell})",
                                        {"wrapper": wname, "shell": shell, "sent": sent_shell}))
            if wname == "step":
                sent_over = args[10] if len(args) > 10 else call[2].get("env_overrides")
                if (sent_over or None) != over:
                    ctx.finding(Finding(PID, "ingredient-lost-in-api:step:env_overrides",
                                        f"step(env_overrides={over}) reaches the director as define_step(env_overrides={sent_over})",
                                        {"env_overrides": over, "sent": sent_over}))


async def search(ctx):
    api_ingredients_oracle(ctx)
    r = ctx.rng("oracle")
    n = ctx.budget(4000, 80000)
    kinds = {}
    for _ in range(n):
        c = gen_cfg(r)
        m = mutate_one(r, c)
        if m is None:
            continue
        what, c2 = m
        if same_cfg(c, c2):
            continue
        kinds[what] = kinds.get(what, 0) + 1
        ctx.stats.case(("pair", inp_line(c), inp_line(c2)))
        try:
            d1, d2 = impl_inp(c), impl_inp(c2)
        except Exception as exc:
            ctx.finding(Finding(PID, f"from_inp-raises:{type(exc).__name__}", f"from_inp raised {exc!r}",
                                {"config": describe(c), "other": describe(c2)}))
            continue
        if d1 == d2:
            sig = "inp-keyword-collision" if is_f1_shape(c, c2) else f"inp-digest-ignores:{what}"
            ctx.finding(Finding(PID, sig, f"configurations differing in {what} share inp_digest {d1.hex()[:16]}",
                                {"changed": what, "config_a": describe(c), "config_b": describe(c2),
                                 "digest": d1.hex()}))
        # order independence
        c3 = {**c, "files": shuffled(r, c["files"]), "envs": shuffled(r, c["envs"]), "ovr": shuffled(r, c["ovr"])}
        if impl_inp(c3) != d1 or impl_out(c3["files"]) != impl_out(c["files"]):
            ctx.finding(Finding(PID, "digest-order-dependent", "digest depends on the order of the ingredients",
                                {"config": describe(c), "reordered": describe(c3)}))
        # outputs
        if what in ("digest", "mode", "size", "path", "del_file", "add_file"):
            o1, o2 = impl_out(c["files"]), impl_out(c2["files"])
            if o1 == o2:
                ctx.finding(Finding(PID, f"out-digest-ignores:{what}",
                                    f"output maps differing in {what} share out_digest",
                                    {"changed": what, "files_a": describe(c)["files"], "files_b": describe(c2)["files"]}))
        # JSON round trips
        for h in c["files"].values():
            back = FileHash.from_json(h.to_json())
            if h.is_unknown:
                ok = back.is_unknown
            else:
                ok = (back == h and back.mtime == h.mtime and back.inode == h.inode and back.digest == h.digest
                      and back.mode == h.mode and back.size == h.size)
            if not ok:
                ctx.finding(Finding(PID, "filehash-json-roundtrip", "FileHash does not survive to_json/from_json",
                                    {"hash": [h.digest.hex(), h.mode, h.mtime, h.size, h.inode],
                                     "back": [back.digest.hex(), back.mode, back.mtime, back.size, back.inode]}))
        # ... and for a history of saves: a hash that is `==` to one saved before (same digest, mode and size)
        # but carries another stat record must come back with its own record, whatever was saved earlier
        for h in c["files"].values():
            if h.is_unknown:
                continue
            twins = [attrs.evolve(h, mtime=h.mtime + 1.5, inode=h.inode + 7), attrs.evolve(h, mtime=h.mtime - 0.25),
                     h, attrs.evolve(h, inode=h.inode + 1)]
            for t in twins:
                back = FileHash.from_json(t.to_json())
                kinds["json-after-equal-hash"] = kinds.get("json-after-equal-hash", 0) + 1
                if not (back == t and back.mtime == t.mtime and back.inode == t.inode):
                    ctx.finding(Finding(PID, "filehash-json-roundtrip:after-an-equal-hash",
                                        "a FileHash saved after an equal one (same content, other stat record) does not "
                                        "come back unchanged",
                                        {"hash": [t.digest.hex(), t.mode, t.mtime, t.size, t.inode],
                                         "back": [back.digest.hex(), back.mode, back.mtime, back.size, back.inode],
                                         "first_saved": [h.digest.hex(), h.mode, h.mtime, h.size, h.inode]}))
        for explained in (False, True):
            sh = StepHash.from_inp(c["label"], c["files"], c["envs"], explained=explained, shell=c["shell"],
                                   env_overrides=c["ovr"]).with_out_hashes(c["files"])
            back = StepHash.from_json(sh.to_json())
            if back != sh or back.inp_digest != sh.inp_digest or back.out_digest != sh.out_digest:
                ctx.finding(Finding(PID, "stephash-json-roundtrip", "StepHash does not survive to_json/from_json",
                                    {"config": describe(c), "explained": explained}))
    ctx.extra["oracle_pair_kinds"] = kinds
    # witnesses of the recorded findings (and of the negation theorems)
    a, b = F1
    if impl_inp(a) == impl_inp(b):
        ctx.finding(Finding(PID, "inp-keyword-collision",
                            "a tracked variable named __env_overrides__ collides with an override of that value",
                            {"config_a": describe(a), "config_b": describe(b), "digest": impl_inp(a).hex()}))
    fa, fb = f2_pair()
    if impl_out(fa) == impl_out(fb):
        ctx.finding(Finding(PID, "out-unknown-marker-collision",
                            "two unknown outputs collide with one crafted 32-byte digest beginning with 'u\\0\\1'",
                            {"files_a": {p: h.digest.hex() for p, h in fa.items()},
                             "files_b": {p: h.digest.hex() for p, h in fb.items()}, "digest": impl_out(fa).hex()}))
    await oracle_refreshed(ctx)
    oracle_batch(ctx)
    import hashrace

    problems, ncase = hashrace.run(ctx.rng("hashrace"), ctx.budget(40, 600))
    ctx.stats.count("refreshed-while-rewritten-cases", ncase)
    for pr in problems[:1]:
        ctx.finding(Finding(PID, "refreshed-misses:rewritten-while-hashed",
                            "a file rewritten right after its bytes were read for hashing is recorded with the digest of "
                            "the old content and the stat fields of the new one: the next refreshed() takes the unchanged "
                            "short cut and keeps the wrong digest", {**pr, "how": "harness/hashrace.py run()"}))


def oracle_batch(ctx):
    """The batch functions the executor uses (`compute_inp_hashes`, `compute_out_hashes`): every file whose
    content, size or mode changed (with a stat field that moved) is in `new_hashes` and is reported, an unchanged
    one is not; `all_hashes` holds the refreshed hash of every path."""
    import threading

    from stepup.core.hash import compute_inp_hashes, compute_out_hashes

    r = ctx.rng("oracle-batch")
    tmp = tempfile.mkdtemp(prefix="verif-c13b-")
    cwd = os.getcwd()
    os.chdir(tmp)
    try:
        for i in range(ctx.budget(60, 800)):
            names = [f"f{i}_{j}" for j in range(r.randint(2, 4))]
            for n in names:
                with open(n, "wb") as fh:
                    fh.write(bytes(r.getrandbits(8) for _ in range(r.choice([1, 5, 20]))))
                os.chmod(n, 0o644)
                os.utime(n, (1_000_000.0, 1_000_000.0))
            old = {n: FileHash.unknown().refreshed(n) for n in names}
            changed = {}
            for n in names:
                kind = r.choice(["same", "same", "content", "mode", "size", "vanish"])
                if kind == "content":
                    with open(n, "r+b") as fh:
                        data = bytearray(fh.read())
                        data[0] ^= 0xFF
                        fh.seek(0)
                        fh.write(data)
                    os.utime(n, (1_000_500.0, 1_000_500.0))
                elif kind == "size":
                    with open(n, "ab") as fh:
                        fh.write(b"+")
                    os.utime(n, (1_000_000.0, 1_000_000.0))  # same mtime: the size moved
                elif kind == "mode":
                    os.chmod(n, 0o600)
                elif kind == "vanish":
                    os.remove(n)
                if kind != "same":
                    changed[n] = kind
            for fname, fn in (("compute_inp_hashes", compute_inp_hashes), ("compute_out_hashes", compute_out_hashes)):
                if True:  # a vanished output is a change of that output too (it goes back to PLANNED)
                    try:
                        res = fn(dict(old), threading.Event())
                    except Exception as exc:  # noqa: BLE001
                        ctx.stats.count(f"oracle-batch:{fname}:raises-{type(exc).__name__}")
                        continue
                    ctx.stats.count(f"oracle-batch:{fname}")
                    missed = sorted(n for n in changed if n not in res.new_hashes)
                    extra = sorted(n for n in res.new_hashes if n not in changed)
                    silent = (sorted(n for n in changed if not any(n in m for m in res.messages))
                              if fname == "compute_inp_hashes" else [])
                    if missed or extra or silent:
                        ctx.finding(Finding(PID, f"batch-misses-change:{fname}:" + (changed[missed[0]] if missed else
                                                                                    "unchanged-reported" if extra else "not-reported"),
                                            f"{fname} on {names}: changed {changed}, new_hashes has {sorted(res.new_hashes)}, "
                                            f"messages {res.messages[:3]}",
                                            {"changed": changed, "new_hashes": sorted(res.new_hashes), "messages": res.messages}))
            for n in names:
                if os.path.exists(n):
                    os.remove(n)
    finally:
        os.chdir(cwd)
        shutil.rmtree(tmp, ignore_errors=True)


async def oracle_refreshed(ctx):
    """A file whose content, size or mode changed is reported as changed whenever a stat field moved."""
    r = ctx.rng("oracle-refreshed")
    tmp = tempfile.mkdtemp(prefix="verif-c13o-")
    try:
        for i in range(ctx.budget(120, 1500)):
            path = os.path.join(tmp, f"g{i}")
            c1 = bytes(r.getrandbits(8) for _ in range(r.choice([1, 4, 16])))
            with open(path, "wb") as fh:
                fh.write(c1)
            os.chmod(path, 0o644)
            os.utime(path, (1_000_000.0, 1_000_000.0))
            rec = FileHash.unknown().refreshed(path)
            kind = r.choice(["content", "content+size", "mode", "delete", "touch-only", "replace", "older-mtime",
                             "older-mtime"])
            if kind == "content":
                c2 = bytes(b ^ 1 for b in c1)
                with open(path, "wb") as fh:
                    fh.write(c2)
                os.utime(path, (1_000_001.0, 1_000_001.0))
            elif kind == "older-mtime":
                # rewritten in place (same inode, same size) with an older time stamp, as `cp -p` or
                # `rsync -t` of an earlier revision does
                with open(path, "r+b") as fh:
                    fh.write(bytes(b ^ 4 for b in c1))
                os.utime(path, (999_999.0, 999_999.0 - r.choice([0.0, 0.000001, 5.0])))
            elif kind == "content+size":
                with open(path, "ab") as fh:
                    fh.write(b"x")
                os.utime(path, (1_000_000.0, 1_000_000.0))  # mtime restored: size still differs
            elif kind == "mode":
                os.chmod(path, 0o755)
            elif kind == "delete":
                os.unlink(path)
            elif kind == "touch-only":
                os.utime(path, (1_000_002.0, 1_000_002.0))
            elif kind == "replace":
                other = path + ".new"
                with open(other, "wb") as fh:
                    fh.write(bytes(b ^ 2 for b in c1))
                os.utime(other, (1_000_000.0, 1_000_000.0))
                os.replace(other, path)  # same size and mtime, new inode
            new = rec.refreshed(path)
            changed = new != rec
            expect = kind != "touch-only"
            ctx.stats.case(("refreshed-oracle", kind, i))
            if changed != expect:
                ctx.finding(Finding(PID, f"refreshed-misses:{kind}",
                                    f"refreshed reports changed={changed} after '{kind}'",
                                    {"kind": kind, "record": repr(rec), "new": repr(new)}))
            if kind == "delete" and not new.is_unknown:
                ctx.finding(Finding(PID, "refreshed-missing-not-unknown", "a vanished file is not reported unknown",
                                    {"new": repr(new)}))
    finally:
        shutil.rmtree(tmp, ignore_errors=True)


async def replay(ctx, detail):
    d = detail.get("detail", {})
    sig = detail.get("signature", "")
    if "config_a" in d and "config_b" in d:
        def cfg(x):
            return {"label": x["label"], "shell": x["shell"], "envs": x["envs"], "ovr": x["ovr"],
                    "files": {p: FileHash(bytes.fromhex(v[0]), v[1], 0.0, v[2], 0) for p, v in x["files"].items()}}
        a, b = cfg(d["config_a"]), cfg(d["config_b"])
        return {"reproduced": impl_inp(a) == impl_inp(b), "signature": sig}
    await search(ctx)
    return {"reproduced": any(f.signature == sig for f in ctx.findings), "signature": sig}
