"""C17: named glob matching is consistent with the file system and with itself.

Correspondence (model `P/NGlob.lean` versus `stepup/core/nglob.py`, same generated inputs):
the tokeniser, the emitted regex and glob strings, the `NamedGlob` constructor (errors, used
names), `_match_values` (re.fullmatch + groupdict) on generated paths, `fnmatch` on single
components, `glob.glob(recursive=True, include_hidden=True)` and `NamedGlob.glob()` on real
generated directory trees in a temporary directory, `extend` / `reduce` / `will_change` / `files`,
and the `has_*` / `glob_base_dir` helpers.

Oracle (implementation only, no Lean): recorded set == existing paths accepted by the compiled
regex; globbed files are recorded (patterns without repeated names); incremental update == fresh
scan after the change set was applied to the real tree; a repeated name binds equal substrings
(checked by substituting the bound text back into the pattern); an anonymous `*` and a fresh named
wildcard accept and record the same paths.
Workflow level: 2-3 steps register overlapping, identical and disjoint patterns through the real
`Workflow.register_nglob`, the real tree changes, then `startup.rescan_nglobs` (restart) or
`Workflow.process_nglob_changes` (watcher) runs; every registration persisted in the database must
equal a fresh scan and exactly the steps whose match sets changed must be pending.
"""

from __future__ import annotations

import asyncio
import copy
import glob as pyglob
import fnmatch
import os
import re
import shutil
import tempfile
import warnings

import common
import implkit  # noqa: F401  (puts the repository under test first on sys.path)
from common import Finding, hexlist, hexs

from stepup.core import nglob as NG
from stepup.core.nglob import NamedGlob, convert_nglob_to_glob, convert_nglob_to_regex

warnings.filterwarnings("ignore", category=FutureWarning)

PID = "C17"
LEVEL = "proof"
ASSUMPTIONS = [
    "the regex AST of the model covers exactly the fragment convert_nglob_to_regex emits; its backtracking "
    "matcher and the model of glob.iglob/fnmatch on a finite tree are tied to CPython 3.12 by this run's "
    "correspondence only",
    "character classes are compared only when their body is made of literal characters and ascending ranges "
    "(no \\ [ ] & ~ |, no leading ^, not empty): Python re and fnmatch read other bodies differently "
    "(e.g. `[^a]` negates in re and is a literal ^ for fnmatch), see `simplePattern`; such patterns are counted "
    "as `unsupported-class` and skipped; a class that contains `/` is split by glob at the separator and tallied "
    "as `expected-incomplete:class-with-separator`",
    "tree comparisons use relative patterns whose glob form has no empty, `.` or `..` component; the trees of the MODEL "
    "have no symlinks (trees with links to files, to directories and dangling links are decided on the implementation "
    "alone by `symlink_oracle`: scan = standard glob and accepted, incremental update = fresh scan for complete change "
    "lists); the language statements are about trees that list every ancestor directory (`closedTree`)",
    "a directory is recorded only through a pattern that ends in a single-component wildcard, `**` or `/` "
    "(design of nglob: the match carries a trailing separator, theorem directory_needs_wildcard_negation); the "
    "glob-versus-recorded comparison of the oracle is therefore made on non-directory paths",
    "proved for all inputs: incremental update = rescan, will_change, back-reference equality, recorded = "
    "globbed and accepted (full since the existence filter of NamedGlob.glob), anonymous = named on token lists for "
    "non-adjacent wildcards; `glob_complete` and `regex_eq_glob_no_repeats` are stated as Props and refuted by the "
    "four known over-acceptance classes (and, by design, for directories); no positive part of them is proved: the "
    "oracle decides them on generated cases only",
    "whether `.` matches a newline is the regenerated table Generated/NGlob.lean (NGLOB_REGEX_FLAGS & re.DOTALL, "
    "and every re.compile of an emitted expression passing the flags, by ast); F4 and F10 are fixed in /repo and "
    "their witnesses are replayed by the oracle on every run",
    "group names are ASCII identifiers; surrogate code points are not generated",
]

# Report deviations outside the two documented findings as findings too (default: tallied only).
REPORT_OTHER_DEVIATIONS = False

NAMES = ["a", "b", "ab", "ba", "a1", "f1", "f2", "x.txt", "y.txt", ".h", ".hid", "x y", "p%q", "q[1", "é",
         "10", "042", "777", "foo_042", "bar_777", "c", "0"]
EXOTIC_NAMES = ["a\nb", "\n", "n\n", "x\ny.txt", "\nz"]
WILD_NAMES = ["n", "m", "idx", "N_1"]
GOOD_SUBS = ["?*", "[0-9]", "[0-9][0-9][0-9]", "a*", "*.txt", "?", "*", "[!.]*", "*_*", "a", "[ab]?", "f[12]",
             "??*", "[a-c]*"]
ODD_SUBS = ["**", "*/*", "**/*", "a/b", "", "${*x}", "[z-a]", "***", "[^a]", "*/"]


# ---------------------------------------------------------------------------------------------
# Generators
# ---------------------------------------------------------------------------------------------


def gen_tree(r, exotic: bool) -> dict[tuple[str, ...], bool]:
    pool = r.sample(NAMES, r.randint(3, 7))
    if exotic:
        pool += r.sample(EXOTIC_NAMES, r.randint(1, 2))
    entries: dict[tuple[str, ...], bool] = {}

    def fill(prefix, depth):
        k = r.choice([1, 2, 2, 3, 3, 4]) if depth == 0 else r.choice([0, 0, 1, 2, 2, 3])
        for name in r.sample(pool, min(k, len(pool))):
            if r.random() < 0.25:
                name = name + r.choice(["", "_", ".", "-"]) + r.choice(pool)
            p = prefix + (name,)
            if p in entries:
                continue
            isdir = depth < 3 and r.random() < (0.55 if depth < 2 else 0.3)
            entries[p] = isdir
            if isdir:
                fill(p, depth + 1)

    fill((), 0)
    return entries


def tree_paths(entries) -> list[str]:
    """Existing paths as StepUp writes them: directories carry a trailing separator."""
    return sorted("/".join(p) + ("/" if d else "") for p, d in entries.items())


def glob_escape_piece(s: str) -> str:
    return "".join("[" + c + "]" if c in "*?[" else c for c in s)


def wild_component(r, comp: str, names: list[str]) -> str:
    """Generalise one literal component into a component pattern that still matches it."""
    k = r.random()
    lit = glob_escape_piece
    if k < 0.22:
        return lit(comp)
    if k < 0.36:
        return "*"
    if k < 0.46:
        return "${*" + r.choice(names) + "}"
    n = len(comp)
    i = r.randint(0, n)
    j = r.randint(i, n)
    mid = comp[i:j]
    if k < 0.58:
        return lit(comp[:i]) + "*" + lit(comp[j:])
    if k < 0.70:
        return lit(comp[:i]) + "${*" + r.choice(names) + "}" + lit(comp[j:])
    if k < 0.80 and n > 0:
        i = r.randrange(n)
        c = comp[i]
        if c in "\\[]&~|^-!/\n":
            rep = "?"
        else:
            rep = r.choice(["?", "[" + c + "x]", "[!x]", "[" + c + "-" + c + "]", "[" + c + "]", "[!/]"])
        return lit(comp[:i]) + rep + lit(comp[i + 1:])
    if k < 0.88:
        return lit(comp[:i]) + "*" + lit(mid) + "*" + lit(comp[j:]) if mid else lit(comp[:i]) + "**" + lit(comp[j:])
    if k < 0.94:
        return "?" * n if n else "*"
    return lit(comp[:i]) + "${*" + r.choice(names) + "}" + "*" + lit(comp[j:])


def pattern_from_path(r, comps: tuple[str, ...], isdir: bool) -> str:
    names = r.sample(WILD_NAMES, r.choice([1, 1, 2]))
    out = []
    i = 0
    while i < len(comps):
        if r.random() < 0.18:
            skip = r.randint(0, len(comps) - i - 1) if i < len(comps) - 1 else 0
            out.append("**")
            i += skip
            if i >= len(comps) - 1 and r.random() < 0.5:
                i = len(comps)
            continue
        out.append(wild_component(r, comps[i], names))
        i += 1
    k = r.random()
    if k < 0.08:
        out.insert(0, "**")
    elif k < 0.16:
        out.append("**")
    elif k < 0.22:
        out.append("*")
    elif k < 0.26:
        out.append("${*" + r.choice(names) + "}")
    pat = "/".join(out)
    if isdir and r.random() < 0.4 or r.random() < 0.04:
        pat += "/"
    return pat


PIECES = ["a", "b", "f", "1", ".", "_", "x y", "%", "é", ".txt", "*", "*", "?", "[ab]", "[!a]", "[a-c]", "[0-9]",
          "${*n}", "${*m}", "${*n}", "/", "/", "/", "**", "/**", "**/", "/**/", "*.txt", "a*", "f?"]
BAD_PIECES = ["[", "]", "[]", "[!]", "[z-a]", "[^a]", "[a\\]", "${*}", "${*1a}", "${*n", "$", "{", "}", "***", "//",
              "./", "../", "\n", "[a/b]", "{a,b}", "+", "(", ")", "|", "^", "#", "&", "~", "\t", "[!!]", "[a-]", "[-a]",
              "[a-c-e]", "[[]", "[*]", "[?]", "${*n}${*n}", "-", "\\", "[a\nb]", "[!^a]", "[a^]", "[ ]", "${*idx}", "!"]


def random_pattern(r, bad: bool) -> str:
    n = r.randint(1, 7)
    out = []
    for _ in range(n):
        out.append(r.choice(BAD_PIECES) if bad and r.random() < 0.4 else r.choice(PIECES))
    pat = "".join(out)
    if bad:
        k = r.random()
        if k < 0.06:
            return ""
        if k < 0.12:
            pat = "/" + pat
        elif k < 0.18:
            pat += "\n"
    return pat


def gen_subs(r, pattern: str, bad: bool) -> dict[str, str]:
    names = sorted(set(re.findall(r"\$\{\*([a-zA-Z0-9_]+)\}", pattern)))
    subs = {}
    for n in names:
        k = r.random()
        if k < 0.5:
            continue
        if bad and k < 0.7 or k > 0.97:
            subs[n] = r.choice(ODD_SUBS)
        else:
            subs[n] = r.choice(GOOD_SUBS)
    if r.random() < 0.05:
        subs["unused"] = "?*"
    return subs


class Case:
    __slots__ = ("pattern", "subs", "stream")

    def __init__(self, pattern, subs, stream):
        self.pattern, self.subs, self.stream = pattern, subs, stream

    def subs_tok(self) -> str:
        flat = []
        for k, v in self.subs.items():
            flat += [k, v]
        return hexlist(flat)

    def key(self):
        return (self.pattern, tuple(sorted(self.subs.items())))

    def describe(self):
        return {"pattern": self.pattern, "subs": self.subs, "stream": self.stream}


def gen_cases_for_tree(r, entries, n: int, exotic: bool) -> list[Case]:
    cases = []
    paths = list(entries.items())
    for _ in range(n):
        k = r.random()
        if k < 0.62 and paths:
            comps, isdir = r.choice(paths)
            pat, stream = pattern_from_path(r, comps, isdir), "from-path"
        elif k < 0.85:
            pat, stream = random_pattern(r, False), "random"
        else:
            pat, stream = random_pattern(r, True), "malformed"
        if exotic:
            stream += "+newline"
        cases.append(Case(pat, gen_subs(r, pat, stream.startswith("malformed")), stream))
    return cases


def probe_paths(r, entries, exotic: bool) -> list[str]:
    base = tree_paths(entries)
    out = set(base)
    for p in base:
        k = r.random()
        if k < 0.3:
            out.add(p.rstrip("/") if p.endswith("/") else p + "/")
        elif k < 0.4:
            out.add(p.replace("/", "//", 1))
        elif k < 0.5 and p:
            i = r.randrange(len(p))
            out.add(p[:i] + r.choice(["x", "/", "", "1", "\n" if exotic else "_"]) + p[i + 1:])
        elif k < 0.55:
            out.add("/" + p)
    out.update(["", "/", "a", "a/", "a/b"])
    return sorted(out)


# ---------------------------------------------------------------------------------------------
# Implementation access
# ---------------------------------------------------------------------------------------------


def impl_compile(fn, case: Case) -> str:
    try:
        with warnings.catch_warnings():
            warnings.simplefilter("ignore")
            return "ok " + hexs(fn(case.pattern, dict(case.subs)))
    except ValueError:
        return "err value"


def impl_ng(case: Case):
    """(`ok`/`err kind`, NamedGlob | None)"""
    try:
        with warnings.catch_warnings():
            warnings.simplefilter("ignore")
            ng = NamedGlob(case.pattern, dict(case.subs))
        return "ok " + hexlist(ng._used_names), ng
    except ValueError:
        return "err value", None
    except re.error:
        return "err regex", None


def show_results(res) -> str:
    groups = sorted(
        ":".join(hexs(v) for v in k) + "=" + ",".join(sorted(hexs(str(p)) for p in ps)) for k, ps in res.items()
    )
    return ";".join(groups) if groups else "."


def show_set(items) -> str:
    items = sorted({hexs(str(x)) for x in items})
    return ",".join(items) if items else "."


def glob_wellformed(g: str) -> bool:
    if not g or g.startswith("/"):
        return False
    comps = g.split("/")
    if any(c in (".", "..") for c in comps):
        return False
    return all(c != "" for c in comps[:-1]) and not (len(comps) == 1 and comps[0] == "")


class RealTree:
    """A generated tree materialised in a temporary directory; the process cwd is inside it."""

    def __init__(self, entries):
        self.entries = dict(entries)
        self.root = tempfile.mkdtemp(prefix="c17-")
        self.old_cwd = os.getcwd()
        for p, d in sorted(self.entries.items(), key=lambda kv: len(kv[0])):
            self._create(p, d)
        os.chdir(self.root)

    def _create(self, p, d):
        full = os.path.join(self.root, *p)
        if d:
            os.makedirs(full, exist_ok=True)
        else:
            os.makedirs(os.path.dirname(full), exist_ok=True)
            with open(full, "w"):
                pass

    def apply(self, new_entries):
        """Turn the tree on disk into `new_entries`."""
        for p, d in sorted(self.entries.items(), key=lambda kv: -len(kv[0])):
            if new_entries.get(p) != d:
                full = os.path.join(self.root, *p)
                if os.path.isdir(full) and not os.path.islink(full):
                    shutil.rmtree(full)
                elif os.path.lexists(full):
                    os.remove(full)
        for p, d in sorted(new_entries.items(), key=lambda kv: len(kv[0])):
            if self.entries.get(p) != d:
                self._create(p, d)
        self.entries = dict(new_entries)

    def close(self):
        os.chdir(self.old_cwd)
        shutil.rmtree(self.root, ignore_errors=True)


def mutate_tree(r, entries, exotic: bool):
    """A change set: delete some subtrees, add files and directories, flip file/directory."""
    new = dict(entries)
    keys = list(entries)
    for p in r.sample(keys, min(len(keys), r.choice([0, 1, 1, 2]))):
        for q in list(new):
            if q[: len(p)] == p:
                del new[q]
        if r.random() < 0.25 and (len(p) == 1 or new.get(p[:-1]) is True):
            new[p] = not entries[p]  # a file became a directory or the reverse
    dirs = [()] + [p for p, d in new.items() if d]
    pool = NAMES + (EXOTIC_NAMES if exotic else [])
    for _ in range(r.choice([0, 1, 2, 3])):
        parent = r.choice(dirs)
        if len(parent) >= 4:
            continue
        p = parent + (r.choice(pool),)
        if p in new:
            continue
        d = r.random() < 0.4
        new[p] = d
        if d:
            dirs.append(p)
            if r.random() < 0.6:
                new[p + (r.choice(pool),)] = False
    return new


# ---------------------------------------------------------------------------------------------
# Workload shared by correspondence and oracle
# ---------------------------------------------------------------------------------------------


class TreeJob:
    __slots__ = ("entries", "entries2", "exotic", "cases", "probes", "rows")

    def __init__(self):
        self.rows = []


def _run_tree(r, ntree_cases: int, exotic: bool) -> TreeJob:
    """Generate one tree with its cases and run the implementation on it (real directory)."""
    job = TreeJob()
    job.exotic = exotic
    job.entries = gen_tree(r, exotic)
    job.cases = gen_cases_for_tree(r, job.entries, ntree_cases, exotic)
    job.probes = probe_paths(r, job.entries, exotic)
    job.entries2 = mutate_tree(r, job.entries, exotic)
    paths1, paths2 = set(tree_paths(job.entries)), set(tree_paths(job.entries2))
    added = sorted(paths2 - paths1)
    deleted = sorted(paths1 - paths2)
    # the watcher's `updated` set also holds modified files, and a deletion may name a path the
    # pattern never saw: both are allowed by the hypotheses of `incremental_eq_rescan`
    noise_added = sorted(r.sample(sorted(paths1 & paths2), min(len(paths1 & paths2), r.choice([0, 0, 1, 2]))))
    noise_deleted = [p for p in ["gone", "gone/", "a/gone"] if p not in paths2 and r.random() < 0.3]
    tree = RealTree(job.entries)
    try:
        for case in job.cases:
            row = {"case": case, "regex": impl_compile(convert_nglob_to_regex, case),
                   "glob": impl_compile(convert_nglob_to_glob, case)}
            row["ng"], ng = impl_ng(case)
            try:
                split = NG.RE_ANY_WILD.split(case.pattern)
                row["tok"] = ",".join(("W" if i % 2 else "L") + hexs(s) for i, s in enumerate(split) if s) or "."
                row["has"] = (f"{int(NG.has_any_wildcards(case.pattern))}{int(NG.has_anonymous_wildcards(case.pattern))}"
                              f"{int(NG.has_trailing_recursive_wildcard(case.pattern))} "
                              f"{hexs(NG.glob_base_dir(case.pattern))}")
            except Exception as exc:  # pragma: no cover
                row["tok"] = row["has"] = "exc:" + type(exc).__name__
            if ng is not None:
                row["match"] = ";".join(
                    "N" if (v := ng._match_values(p)) is None else "M" + ":".join(hexs(x) for x in v)
                    for p in job.probes
                ) or "."
                row["accepted1"] = {p for p in paths1 if ng._regex.fullmatch(p)}
                g = ng._glob_pattern
                row["globstr"] = g
                row["wf"] = glob_wellformed(g)
                if row["wf"]:
                    globbed = pyglob.glob(g, recursive=True, include_hidden=True)
                    row["iglob"] = show_set(globbed)
                    row["globbed"] = set(globbed)
                    ng1 = NamedGlob(case.pattern, dict(case.subs))
                    ng1.glob()
                    row["scan_obj"] = ng1
                    row["scan"] = show_results(ng1.results) + " " + hexlist(str(p) for p in ng1.files())
                # extend / reduce / will_change on plain lists
                old = sorted(paths1 | set(job.probes[:: 3]))
                ng0 = NamedGlob(case.pattern, dict(case.subs))
                ng0.extend(old)
                ext = copy.deepcopy(ng0)
                ext.extend(added + noise_added)
                red = copy.deepcopy(ext)
                red.reduce(deleted + noise_deleted)
                wc = ng0.will_change(deleted + noise_deleted, added + noise_added)
                row["evolve_in"] = (old, added + noise_added, deleted + noise_deleted)
                row["evolve"] = " ".join([
                    show_results(ng0.results), show_results(ext.results), show_results(red.results),
                    "none" if wc is None else "some " + show_results(wc.results),
                    hexlist(str(p) for p in red.files()),
                ])
            job.rows.append(row)
        # second half: apply the change set to the real tree and scan again
        tree.apply(job.entries2)
        for row in job.rows:
            ng1 = row.get("scan_obj")
            if ng1 is None:
                continue
            case = row["case"]
            fresh = NamedGlob(case.pattern, dict(case.subs))
            fresh.glob()
            evolved = ng1.will_change(deleted + noise_deleted, added + noise_added)
            row["incr"] = (ng1.results if evolved is None else evolved.results, fresh.results, evolved is None)
            row["accepted2"] = {p for p in paths2 if fresh._regex.fullmatch(p)}
            row["fresh2"] = {str(p) for p in fresh.files()}
            row["globbed2"] = set(pyglob.glob(fresh._glob_pattern, recursive=True, include_hidden=True))
    finally:
        tree.close()
    return job


async def workload(ctx) -> list[TreeJob]:
    if getattr(ctx, "_c17_jobs", None) is None:
        r = ctx.rng("workload")
        ntrees = ctx.budget(500, 8000)
        per_tree = 20
        jobs = []
        for i in range(ntrees):
            jobs.append(_run_tree(r, per_tree, exotic=(i % 6 == 5)))
        ctx._c17_jobs = jobs
    return ctx._c17_jobs


# ---------------------------------------------------------------------------------------------
# Correspondence
# ---------------------------------------------------------------------------------------------


def tree_tok(entries) -> str:
    return hexlist(tree_paths(entries))


async def correspond(ctx):
    jobs = await workload(ctx)
    st = ctx.stats
    st.rule = ("a case is one (pattern, substitutions) on one generated tree with one change set; patterns are "
               "generalised from a path of the tree (62 %), random piece sequences (23 %) or malformed (15 %); every "
               "sixth tree has names with a newline; non-trivial = the implementation accepted the pattern and either "
               "recorded a match or raised; distinct by (pattern, substitutions, tree)")
    lines: list[str] = []
    index: list[tuple[dict, str, object]] = []  # (row, scope, job)

    def ask(row, scope, job, line):
        lines.append(line)
        index.append((row, scope, job))

    for job in jobs:
        t1 = tree_tok(job.entries)
        for row in job.rows:
            c = row["case"]
            p, s = hexs(c.pattern), c.subs_tok()
            ask(row, "tok", job, f"c17 tok {p}")
            ask(row, "has", job, f"c17 has {p}")
            ask(row, "regex", job, f"c17 regex {p} {s}")
            ask(row, "glob", job, f"c17 glob {p} {s}")
            ask(row, "ng", job, f"c17 ng {p} {s}")
    answers = common.run_driver(lines)
    # first round decides which cases the model covers; the second round asks the tree questions
    lines2: list[str] = []
    index2: list[tuple[dict, str, object]] = []
    for (row, scope, job), ans in zip(index, answers):
        c = row["case"]
        if scope == "ng":
            st.count("stream:" + c.stream)
            simple, _, verdict = ans.partition(" ")
            row["simple"] = simple == "1"
            if not row["simple"]:
                st.count("unsupported-class")
                st.case((scope,) + c.key(), False)
                continue
            st.case((scope,) + c.key(), row["ng"].startswith("err"))
            if verdict != row["ng"]:
                ctx.disagree("NamedGlob.__init__", c.describe(), verdict, row["ng"])
            continue
        st.case((scope,) + c.key(), scope in ("regex", "glob") and ans.startswith("ok"))
        if ans != row[scope]:
            ctx.disagree({"tok": "RE_ANY_WILD.split", "has": "has_*/glob_base_dir", "regex": "convert_nglob_to_regex",
                          "glob": "convert_nglob_to_glob"}[scope], c.describe(), _unhex_answer(ans), _unhex_answer(row[scope]))
    for job in jobs:
        t1 = tree_tok(job.entries)
        for row in job.rows:
            if not row.get("simple") or "match" not in row:
                continue
            c = row["case"]
            p, s = hexs(c.pattern), c.subs_tok()
            lines2.append(f"c17 match {p} {s} {hexlist(job.probes)}")
            index2.append((row, "match", job))
            old, added, deleted = row["evolve_in"]
            lines2.append(f"c17 evolve {p} {s} {hexlist(old)} {hexlist(added)} {hexlist(deleted)}")
            index2.append((row, "evolve", job))
            if row["wf"]:
                lines2.append(f"c17 iglob {hexs(row['globstr'])} {t1}")
                index2.append((row, "iglob", job))
                lines2.append(f"c17 scan {p} {s} {t1}")
                index2.append((row, "scan", job))
            else:
                st.count("not-wellformed-for-tree")
    answers2 = common.run_driver(lines2) if lines2 else []
    scope_names = {"match": "_match_values", "evolve": "extend/reduce/will_change/files", "iglob": "glob.glob",
                   "scan": "NamedGlob.glob"}
    for (row, scope, job), ans in zip(index2, answers2):
        c = row["case"]
        impl = row[scope]
        nontrivial = {"match": "M" in impl, "evolve": "some" in impl, "iglob": impl != ".",
                      "scan": not impl.startswith(". ")}[scope]
        st.case((scope,) + c.key() + (tuple(sorted(job.entries)),), nontrivial)
        st.count(scope + (":nontrivial" if nontrivial else ":trivial"))
        if ans != impl:
            inp = dict(c.describe(), tree=tree_paths(job.entries))
            if scope == "match":
                inp["probes"] = job.probes
            if scope == "evolve":
                inp["old/added/deleted"] = row["evolve_in"]
            if scope == "iglob":
                inp["glob"] = row["globstr"]
            ctx.disagree(scope_names[scope], inp, _unhex_answer(ans), _unhex_answer(impl))
        elif nontrivial and scope == "scan":
            st.sample({"pattern": c.pattern, "subs": c.subs, "tree": tree_paths(job.entries),
                       "recorded": _unhex_answer(impl)}, limit=8)
    # fnmatch on single components (the part of glob that decides a name)
    r = ctx.rng("fnmatch")
    fl, fidx = [], []
    for _ in range(ctx.budget(1500, 20000)):
        pat = "".join(r.choice(["a", "b", "1", ".", "*", "*", "?", "[ab]", "[!a]", "[a-c]", "[", "]", "x y", "%", "é",
                                "[0-9]", "[!0-9]", "\n", "[a-]", "[-a]", "!"]) for _ in range(r.randint(1, 5)))
        names = [r.choice(NAMES + EXOTIC_NAMES + ["", "a]", "[", "b1", "ab1.", "!"]) for _ in range(6)]
        fl.append(f"c17 fnmatch {hexs(pat)} {hexlist(names)}")
        fidx.append((pat, names))
        # `simple` decides whether the class syntax is covered
        fl.append(f"c17 ng {hexs(pat)} .")
        fidx.append(None)
    fans = common.run_driver(fl)
    for i in range(0, len(fl), 2):
        pat, names = fidx[i]
        if not fans[i + 1].startswith("1 "):
            st.count("fnmatch:unsupported-class")
            continue
        impl = "".join(str(int(fnmatch.fnmatchcase(n, pat))) for n in names)
        st.case(("fnmatch", pat, tuple(names)), "1" in impl)
        st.count("fnmatch")
        if fans[i] != impl:
            ctx.disagree("fnmatch.fnmatchcase", {"pattern": pat, "names": names}, fans[i], impl)
    st.programs = 10


def _unhex_answer(ans: str):
    """Readable form of a protocol answer for disagreement reports."""
    def tok(t):
        try:
            if re.fullmatch(r"(?:[0-9a-f]{2})+|-", t):
                return common.unhexs(t)
        except Exception:
            pass
        return t
    return re.sub(r"[0-9a-f]{2,}|(?<![0-9a-zA-Z])-(?![0-9a-zA-Z])", lambda m: repr(tok(m.group(0))), ans)


# ---------------------------------------------------------------------------------------------
# Oracle (implementation only)
# ---------------------------------------------------------------------------------------------

SIG_NEWLINE = "nglob-newline-dotall"
SIG_PHANTOM = "nglob-phantom-base"
SIG_NEGCLASS = "nglob-negated-class-slash"
SIG_RECBASE = "nglob-recursive-star-base"
SIG_BREFEMPTY = "nglob-backref-empty-component"
SIG_WILDRUN = "nglob-wildcard-run-empty-component"
DOCUMENTED = (SIG_NEWLINE, SIG_PHANTOM, SIG_NEGCLASS, SIG_RECBASE, SIG_BREFEMPTY, SIG_WILDRUN)

def _flags() -> int:
    """The flags the implementation compiles its expressions with (0 before the F4 fix)."""
    return int(getattr(NG, "NGLOB_REGEX_FLAGS", 0))


RECBASE_TAIL = re.compile(r"\(\?:\.\*/\|\)((?:\(\?P<\w+>)?)\[\^/\]\*(\)?)/\?$")


def classify_overaccept(ng: NamedGlob, pattern: str, q: str) -> str | None:
    """Why does the compiled regex accept the existing path `q` that the plain glob cannot return?
    Each documented class is recognised by undoing its cause in the regex and matching again."""
    rx = ng._regex.pattern
    try:
        if not re.fullmatch(rx.replace("[^", "[^/"), q, _flags()):
            return SIG_NEGCLASS
    except re.error:
        pass
    if repeated_names(pattern):
        vals = ng._match_values(q)
        names = re.findall(r"\$\{\*([a-zA-Z0-9_]+)\}", pattern)
        rep = {n for n in names if names.count(n) > 1}
        if vals is not None and any(v == "" for n, v in zip(ng._used_names, vals) if n in rep):
            return SIG_BREFEMPTY
    if RECBASE_TAIL.search(rx):
        fixed = RECBASE_TAIL.sub(lambda m: "(?:.*/|)" + m.group(1) + "[^/]+" + m.group(2) + "/?", rx)
        if not re.fullmatch(fixed, q, _flags()):
            return SIG_RECBASE
    # the last component is a run of two or more single-component wildcards, all matching nothing
    parts = [x for x in NG.RE_ANY_WILD.split(pattern) if x]
    run = 0
    while run < len(parts) and (parts[-1 - run] == "*" or parts[-1 - run].startswith("${*")):
        run += 1
    if run >= 2 and run < len(parts) and parts[-1 - run].endswith("/") and q.endswith("/"):
        prefix = "".join(parts[: len(parts) - run])
        try:
            if re.fullmatch(convert_nglob_to_regex(prefix, dict(ng.subs)), q, _flags()):
                return SIG_WILDRUN
        except (ValueError, re.error):
            pass
    return None


def repeated_names(pattern: str) -> bool:
    names = re.findall(r"\$\{\*([a-zA-Z0-9_]+)\}", pattern)
    return len(names) != len(set(names))


def check_recorded(pattern, subs, existing: set[str], recorded: set[str], accepted: set[str], globbed: set[str]):
    """Decide the recorded-set clauses on one (pattern, tree); yields (signature, what, detail)."""
    detail = {"pattern": pattern, "subs": subs, "tree": sorted(existing)}
    extra = recorded - accepted
    if extra:
        ghosts = sorted(p for p in extra if p not in existing)
        sig = SIG_PHANTOM if ghosts and all(p.endswith("/") for p in ghosts) and \
            convert_nglob_to_glob(pattern, subs).endswith("**") else "nglob-recorded-not-accepted"
        yield sig, (f"NamedGlob({pattern!r}).glob() records {ghosts or sorted(extra)!r}, which "
                    f"{'does not exist' if ghosts else 'the matcher rejects'}"), \
            dict(detail, recorded=sorted(recorded), expected=sorted(accepted))
    missing = accepted - recorded
    if missing:
        ng = NamedGlob(pattern, dict(subs))
        classes: dict[str, list[str]] = {}
        for q in sorted(missing):
            classes.setdefault(classify_overaccept(ng, pattern, q) or "nglob-glob-incomplete", []).append(q)
        for sig, qs in classes.items():
            yield sig, (f"the regex {ng._regex.pattern!r} of {pattern!r} accepts the existing path(s) {qs!r}, which "
                        f"glob.glob({ng._glob_pattern!r}) does not return, so NamedGlob.glob() does not record them"), \
                dict(detail, recorded=sorted(recorded), expected=sorted(accepted), overaccepted=qs)
    if not repeated_names(pattern):
        # what the plain recursive glob returns (non-directories) must be recorded
        lost = sorted(p for p in globbed if p in existing and not p.endswith("/") and p not in recorded)
        if lost:
            ngx = NamedGlob(pattern, dict(subs))
            # the newline class: the same expression accepts the path once `.` matches a newline
            sig = SIG_NEWLINE if all("\n" in p and not ngx._regex.fullmatch(p) and
                                     re.fullmatch(ngx._regex.pattern, p, re.DOTALL) for p in lost) \
                else "nglob-globbed-not-recorded"
            yield sig, (f"glob.glob of the plain pattern of {pattern!r} returns {lost!r}, which NamedGlob.glob() "
                        f"does not record" + (" (`.` of `.*` does not match a newline)" if sig == SIG_NEWLINE else "")), \
                dict(detail, recorded=sorted(recorded), globbed=sorted(globbed))


def check_backrefs(ng: NamedGlob, pattern: str, subs: dict, paths) -> tuple | None:
    """A repeated name binds equal substrings: write the bound text literally in place of the
    group and of every back-reference in the emitted expression; the result (which no longer uses
    the back-reference feature of `re`) must still match the path, and the bound text must match
    the sub-pattern of its name."""
    rx = ng._regex.pattern
    bodies = {}
    for n in ng._used_names:
        try:
            with warnings.catch_warnings():
                warnings.simplefilter("ignore")
                body = convert_nglob_to_regex(subs.get(n, "*"), {}, False)
        except (ValueError, re.error):
            return None
        for cand in (body, "[^/]+"):
            if f"(?P<{n}>{cand})" in rx:
                bodies[n] = cand
                break
        else:
            return None
    for p in paths:
        vals = ng._match_values(p)
        if vals is None:
            continue
        binding = dict(zip(ng._used_names, vals))
        plain = rx
        for n, v in binding.items():
            lit = "(?:" + re.escape(v) + ")"
            plain = plain.replace(f"(?P<{n}>{bodies[n]})", lit).replace(f"(?P={n})", lit)
            if not re.fullmatch(bodies[n], v, _flags()):
                return p, binding, f"value of {n} does not match its sub-pattern {bodies[n]!r}"
        if "(?P" in plain or not re.fullmatch(plain, p, _flags()):
            return p, binding, plain
        # second form, independent of how the implementation encodes a repeated occurrence: put the bound
        # text into the *pattern*; skipped when that would change the tokenisation (empty text, separators)
        if all(v and "/" not in v and "\n" not in v for v in binding.values()):
            subst = re.sub(r"\$\{\*([a-zA-Z0-9_]+)\}", lambda m: glob_escape_piece(binding[m.group(1)]), pattern)
            try:
                with warnings.catch_warnings():
                    warnings.simplefilter("ignore")
                    rx2 = re.compile(convert_nglob_to_regex(subst, {}, False), _flags())
            except (ValueError, re.error):
                continue
            if not (rx2.fullmatch(p) or (p.endswith("/") and rx2.fullmatch(p[:-1]))):
                return p, binding, subst
    return None


STAR_TOKEN = re.compile(r"(?<![*])[*](?![*])")


def anon_named_variants(r, pattern: str):
    """Replace one anonymous `*` (not next to another `*` or a named wildcard) by `${*zz9}`."""
    spots = [m.start() for m in STAR_TOKEN.finditer(pattern)]
    ok = []
    split = NG.RE_ANY_WILD.split(pattern)
    # positions of the tokens, to be sure the star is a token of its own and its neighbours are text or separators
    pos = 0
    toks = []
    for i, s in enumerate(split):
        if s:
            toks.append((pos, s, i % 2 == 1))
        pos += len(s)
    for j, (at, s, wild) in enumerate(toks):
        if wild and s == "*" and at in spots:
            left = toks[j - 1] if j > 0 else None
            right = toks[j + 1] if j + 1 < len(toks) else None
            if (left is None or not left[2] or left[1] in ("?",) or left[1].startswith("[")) and \
                    (right is None or not right[2] or right[1] in ("?",) or right[1].startswith("[")):
                ok.append(at)
    if not ok:
        return None
    at = r.choice(ok)
    return pattern[:at] + "${*zz9}" + pattern[at + 1:]


def _tally(ctx, sig: str):
    ctx.stats.count("oracle:" + sig)


def _report(ctx, sig, what, detail):
    _tally(ctx, sig)
    if sig in DOCUMENTED or REPORT_OTHER_DEVIATIONS:
        ctx.finding(Finding(PID, sig, what, detail))
    else:
        obs = ctx.extra.setdefault("other_deviations", {})
        if sig not in obs:
            obs[sig] = {"what": what, "detail": detail}
        # anything that is not a documented deviation class and shows up in the main streams is a violation
        if detail.get("_unexpected"):
            ctx.finding(Finding(PID, sig, what, detail))


def witness_phantom():
    """`phantom_base_negation`: empty tree, pattern `n/**`."""
    d = tempfile.mkdtemp(prefix="c17w-")
    cwd = os.getcwd()
    try:
        os.chdir(d)
        ng = NamedGlob("n/**")
        ng.glob()
        rec1 = [str(p) for p in ng.files()]
        os.makedirs("a")
        open("a/f1", "w").close()
        ng = NamedGlob("a/f1/**")
        ng.glob()
        rec2 = [str(p) for p in ng.files()]
    finally:
        os.chdir(cwd)
        shutil.rmtree(d, ignore_errors=True)
    return rec1, rec2


def witness_newline():
    """`newline_negation`: tree `d/ok.txt`, `d/a\\nb/f.txt`, pattern `d/**`."""
    d = tempfile.mkdtemp(prefix="c17w-")
    cwd = os.getcwd()
    try:
        os.chdir(d)
        os.makedirs("d/a\nb")
        open("d/ok.txt", "w").close()
        open("d/a\nb/f.txt", "w").close()
        ng = NamedGlob("d/**")
        ng.glob()
        rec = [str(p) for p in ng.files()]
        globbed = sorted(pyglob.glob("d/**", recursive=True, include_hidden=True))
    finally:
        os.chdir(cwd)
        shutil.rmtree(d, ignore_errors=True)
    return rec, globbed


OVERACCEPT_WITNESSES = [
    (SIG_NEGCLASS, "?[!x]f", ["b/", "b/f"], "b/f",
     "`[!x]` is copied as `[^x]`, which matches the separator"),
    (SIG_RECBASE, "a/**/*", ["a/", "a/x"], "a/",
     "the trailing rule requires a non-empty last component only after a literal `/`, not after `(?:.*/|)`"),
    (SIG_BREFEMPTY, "b${*n}/${*n}", ["b/"], "b/",
     "a back-reference that makes up a whole component may match the empty string"),
    (SIG_WILDRUN, "a/${*m}*", ["a/", "a/x"], "a/",
     "the non-empty rule covers a lone wildcard after `/`; two adjacent ones may both match nothing"),
]


def witness_overaccept(pattern: str, tree_list: list[str], q: str) -> dict:
    entries = {tuple(p.rstrip("/").split("/")): p.endswith("/") for p in tree_list}
    tree = RealTree(entries)
    try:
        ng = NamedGlob(pattern)
        ng.glob()
        return {"regex": ng._regex.pattern, "glob": ng._glob_pattern,
                "globbed": sorted(pyglob.glob(ng._glob_pattern, recursive=True, include_hidden=True)),
                "recorded": q in {str(p) for p in ng.files()}, "accepted": bool(ng._regex.fullmatch(q)),
                "will_change": None if (wc := NamedGlob(pattern).will_change([], [q])) is None else show_plain(wc.results)}
    finally:
        tree.close()


async def witness_workflow_newline() -> bool:
    """The stored regex of a registered pattern, as `Workflow.matches_any_glob` compiles it."""
    async with implkit.workflow() as wf:
        async with wf.db:
            wf.define_step(wf.root, "boot", need=implkit.Need.PLAN)
            boot = wf.find(implkit.Step, "boot")
            ng = NamedGlob("d/**")
            ng.extend(["d/", "d/ok.txt"])
            wf.register_nglob(boot, ng)
            return bool(wf.matches_any_glob("d/a\nb")) and bool(wf.matches_any_glob("d/ok.txt"))


# ---------------------------------------------------------------------------------------------
# Workflow level: registrations persisted in the database, restart rescan and watcher update
# ---------------------------------------------------------------------------------------------

SIG_RESCAN = "nglob-rescan-stale-registration"
SIG_WATCH = "nglob-watch-stale-registration"
SIG_PENDING = "nglob-registration-pending-mismatch"


STATS_HOOK: list = []


class _SilentReporter:
    async def __call__(self, *args, **kwargs):
        pass


def _related_patterns(r, entries) -> list[tuple[str, dict]]:
    """2-5 (pattern, subs) for the registrations of one scenario: identical, overlapping
    (one generalises the other) and disjoint patterns, derived from paths of the tree."""
    paths = list(entries.items())
    out: list[tuple[str, dict]] = []
    want = r.randint(2, 5)
    tries = 0
    while len(out) < want and tries < 40:
        tries += 1
        k = r.random()
        if out and k < 0.25:
            out.append(r.choice(out))  # identical pattern, registered again
            continue
        if out and k < 0.5:
            base, subs = r.choice(out)
            comps = base.split("/")
            i = r.randrange(len(comps))
            comps[i] = r.choice(["*", "**", comps[i] + "*", "?*"]) if comps[i] != "**" else "**"
            pat = "/".join(comps)
            subs = dict(subs)
        elif k < 0.62:
            pat, subs = r.choice(["**", "*", "*/*", "**/*", "*/**"]), {}
        elif paths:
            comps, isdir = r.choice(paths)
            pat = pattern_from_path(r, comps, isdir)
            subs = gen_subs(r, pat, False)
        else:
            pat, subs = random_pattern(r, False), {}
        try:
            with warnings.catch_warnings():
                warnings.simplefilter("ignore")
                ng = NamedGlob(pat, dict(subs))
            if not glob_wellformed(ng._glob_pattern) or pat.startswith(".stepup") or not _plain_classes(pat, subs) \
                    or _expected_incomplete(pat, subs, None):
                continue
        except (ValueError, re.error):
            continue
        out.append((pat, subs))
    return out


def _plain_classes(pat: str, subs: dict) -> bool:
    """Class bodies that `re` and `fnmatch` read alike (the harness-side twin of `simplePattern`)."""
    for text in [pat, *subs.values()]:
        for body in re.findall(r"\[(.*?)\]", text):
            body = body[1:] if body.startswith("!") else body
            if not body or body.startswith("^") or any(c in body for c in "\\[]&~|/"):
                return False
        if "[" in re.sub(r"\[.*?\]", "", text) and "]" in text:
            return False
    return True


def _scan(pat, subs) -> NamedGlob:
    ng = NamedGlob(pat, dict(subs))
    ng.glob()
    return ng


async def workflow_scenario(r, exotic: bool, mode: str) -> list[tuple[str, str, dict]]:
    """One generated scenario, see `run_workflow_scenario`."""
    entries = {p: d for p, d in gen_tree(r, exotic).items() if p[0] != ".stepup"}
    entries2 = mutate_tree(r, entries, exotic)
    pats = _related_patterns(r, entries)
    if len(pats) < 2:
        return []
    nsteps = r.randint(2, 3)
    owner = [i % nsteps if i < nsteps else r.randrange(nsteps) for i in range(len(pats))]
    return await run_workflow_scenario(entries, entries2, pats, owner, nsteps, mode)


async def run_workflow_scenario(entries, entries2, pats, owner, nsteps, mode) -> list[tuple[str, str, dict]]:
    """Register the patterns through the real `Workflow.register_nglob` (steps `owner[i]`), let the
    steps succeed, change the real tree, run `startup.rescan_nglobs` (mode `rescan`: the director
    restarts) or `Workflow.process_nglob_changes` with the exact change lists (mode `watch`), then
    compare every persisted registration with a fresh `NamedGlob(...).glob()` and the step states
    with "pending iff a match set of the step changed".  Returns (signature, what, detail)."""
    from stepup.core.enums import StepState
    from stepup.core.hash import StepHash
    from stepup.core.startup import rescan_nglobs

    problems: list[tuple[str, str, dict]] = []
    paths1, paths2 = set(tree_paths(entries)), set(tree_paths(entries2))
    tree = RealTree(entries)
    try:
        async with implkit.workflow() as wf:
            steps = []
            regs = []  # (step index, pattern, subs, files at registration)
            async with wf.db:
                wf.define_step(wf.root, "./plan.py", need=implkit.Need.PLAN)
                plan = wf.find(implkit.Step, "./plan.py")
                for i in range(nsteps):
                    wf.define_step(plan, f"./work{i}.py")
                    steps.append(wf.find(implkit.Step, f"./work{i}.py"))
                for (pat, subs), si in zip(pats, owner):
                    ng = _scan(pat, subs)
                    try:
                        wf.register_nglob(steps[si], ng)
                    except Exception:
                        continue
                    regs.append((si, pat, subs, [str(p) for p in ng.files()]))
                for st in steps:
                    st.mark_completed(StepHash(b"ok", None, b"inp_ok", None), False)
                    if st.get_state() != StepState.SUCCEEDED:
                        return []
            if len(regs) < 2:
                return []
            tree.apply(entries2)
            deleted, updated = paths1 - paths2, paths2 - paths1
            if mode == "rescan":
                await asyncio.wait_for(rescan_nglobs(wf, _SilentReporter()), 60)
            elif mode == "watchdir":
                # as the watcher sees it: a removed directory arrives as ONE event (`DELETED_PARENT`) and
                # `Watcher.record_change` asks the workflow which paths went with it
                gone_dirs = sorted(d for d in deleted if d.endswith("/"))
                top = [d for d in gone_dirs if not any(d != e and d.startswith(e) for e in gone_dirs)]
                async with wf.db:
                    derived = {q for d in top for q in wf.relevant_paths_under(d)}
                    derived |= {q for q in deleted if not any(q.startswith(d) for d in top)}
                    wf.process_nglob_changes(derived, updated)
            else:
                async with wf.db:
                    wf.process_nglob_changes(deleted, updated)
            async with wf.db:
                stored: dict[int, list] = {}
                for _i, ng, step in wf.nglob_registrations():
                    stored.setdefault(step.i, []).append((ng.pattern, dict(ng.subs), ng))
                states = {st.i: st.get_state() for st in steps}
            detail0 = {"mode": mode, "nsteps": nsteps, "tree": sorted(paths1), "tree_after": sorted(paths2),
                       "registrations": [{"step": f"./work{si}.py", "pattern": pat, "subs": subs, "recorded_before": fl}
                                         for si, pat, subs, fl in regs]}
            changed_steps = set()
            for si, pat, subs, before in regs:
                st = steps[si]
                fresh = _scan(pat, subs)
                cands = [ng for (p2, s2, ng) in stored.get(st.i, []) if p2 == pat and s2 == dict(subs)]
                if mode == "rescan" and fresh.results != _scan_list(pat, subs, before).results:
                    changed_steps.add(si)
                if mode != "rescan" and any(ng.results != _scan_list(pat, subs, before).results for ng in cands):
                    changed_steps.add(si)  # the watcher makes a step pending iff what it stores changes
                if not cands:
                    problems.append((SIG_RESCAN if mode == "rescan" else SIG_WATCH,
                                     f"registration of {pat!r} by ./work{si}.py is missing from the database", detail0))
                    continue
                bad = [ng for ng in cands if ng.results != fresh.results]
                if not bad:
                    continue
                got = bad[0]
                got_s, fresh_s = {str(p) for p in got.files()}, {str(p) for p in fresh.files()}
                detail = dict(detail0, step=f"./work{si}.py", pattern=pat, subs=subs,
                              stored=show_plain(got.results), fresh=show_plain(fresh.results))
                if mode != "rescan":
                    # the watcher update decides by the regex alone: a path the regex over-accepts (known classes)
                    over = {q: classify_overaccept(fresh, pat, q) for q in got_s - fresh_s if q in paths2}
                    if not (fresh_s - got_s) and over and len(over) == len(got_s - fresh_s) and all(over.values()):
                        for sig in sorted(set(over.values())):
                            problems.append((sig, f"process_nglob_changes stores {sorted(q for q, v in over.items() if v == sig)!r} "
                                             f"for {pat!r} (accepted by the regex {fresh._regex.pattern!r}); a fresh scan does not "
                                             f"record them", detail))
                        continue
                    if not (fresh_s - got_s) and (got_s - fresh_s) and _expected_incomplete(pat, subs, None):
                        continue
                problems.append((SIG_RESCAN if mode == "rescan" else SIG_WATCH,
                                 f"after {'rescan_nglobs' if mode == 'rescan' else 'process_nglob_changes'} the database holds "
                                 f"{sorted(got_s)!r} for {pat!r} of ./work{si}.py, a fresh scan gives {sorted(fresh_s)!r}", detail))
            STATS_HOOK.append((mode, len(regs), len(changed_steps), len({(p_, tuple(sorted(s_.items()))) for _, p_, s_, _ in regs}) < len(regs)))
            if not problems:
                for si, st in enumerate(steps):
                    if not any(r0[0] == si for r0 in regs):
                        continue
                    want = StepState.PENDING if si in changed_steps else StepState.SUCCEEDED
                    if states[st.i] != want:
                        problems.append((SIG_PENDING, f"./work{si}.py is {states[st.i].name}, expected {want.name}: its match "
                                         f"sets {'changed' if si in changed_steps else 'did not change'}",
                                         dict(detail0, step=f"./work{si}.py")))
    finally:
        tree.close()
    return problems


def _scan_list(pat, subs, paths) -> NamedGlob:
    ng = NamedGlob(pat, dict(subs))
    ng.extend(paths)
    return ng


# deviation classes that the main generator is known to reach and that are *not* new defects:
# they are consequences of the two documented findings or of documented limits of the model
def _expected_incomplete(pattern: str, subs: dict, missing) -> str | None:
    g = convert_nglob_to_glob(pattern, subs)
    if any("**" in v or "/" in v for v in subs.values()):
        return "sub-with-separator-or-recursive"
    if re.search(r"\[[^\]]*/[^\]]*\]", pattern) or any(re.search(r"\[[^\]]*/[^\]]*\]", v) for v in subs.values()):
        return "class-with-separator"
    if not glob_wellformed(g):
        return "not-wellformed"
    return None


def symlink_oracle(ctx):
    """Trees with symbolic links (to a file, to a directory, dangling), which the model leaves out: what a scan
    records must still be what the standard glob returns and the regex accepts (non-directories compared, as in
    the main oracle), and an incremental update with the watcher's change lists must equal a fresh scan."""
    r = ctx.rng("symlinks")
    patterns = ["*", "*.txt", "d/*", "d/*.txt", "**", "d/**", "**/*.txt", "${*n}.txt", "d/${*n}.txt", "l*", "*/x.txt"]
    for i in range(ctx.budget(25, 300)):
        d = tempfile.mkdtemp(prefix="c17s-")
        cwd = os.getcwd()
        try:
            os.chdir(d)
            os.makedirs("d/sub")
            for f in ("a.txt", "d/x.txt", "d/sub/y.txt", "e/x.txt"):
                os.makedirs(os.path.dirname(f) or ".", exist_ok=True)
                open(f, "w").close()
            links = {}
            for name, target in (("la.txt", "a.txt"), ("ld", "d"), ("lgone.txt", "nowhere.txt"), ("d/lg.txt", "../missing"),
                                 ("d/lx.txt", "x.txt")):
                if r.random() < 0.7:
                    os.symlink(target, name)
                    links[name] = target
            pattern = r.choice(patterns)
            ng = NamedGlob(pattern)
            ng.glob()
            recorded = {str(p) for p in ng.files()}
            globbed = set(pyglob.glob(ng._glob_pattern, recursive=True, include_hidden=True))
            expected = {p for p in globbed if os.path.lexists(p) and not os.path.isdir(p) and ng._regex.fullmatch(p)}
            rec_nd = {p for p in recorded if not p.endswith("/") and not os.path.isdir(p)}
            ctx.stats.count("oracle:symlink-tree")
            ctx.stats.case(("symlinks", pattern, tuple(sorted(links))), nontrivial=bool(links))
            if expected != rec_nd:
                kind = "dangling" if any(not os.path.exists(p) for p in expected ^ rec_nd) else "link"
                ctx.finding(Finding(PID, f"nglob-symlink-scan-differs:{kind}",
                                    f"scan of {pattern!r} records {sorted(rec_nd)}; the standard glob returns and the regex "
                                    f"accepts {sorted(expected)} (links {links})",
                                    {"pattern": pattern, "links": links, "recorded": sorted(rec_nd), "expected": sorted(expected)}))
                continue
            # a change set as the watcher reports it: a new dangling link, a new link to a file, a removed link
            # (complete lists: a path below a linked directory has an alias, and both names change)
            everything = lambda: set(pyglob.glob("**", recursive=True, include_hidden=True))  # noqa: E731
            before = everything()
            for name, target in (("new_gone.txt", "void"), ("d/new_gone.txt", "../void"), ("new_a.txt", "a.txt")):
                if r.random() < 0.6:
                    os.symlink(target, name)
            for name in list(links):
                if r.random() < 0.3:
                    os.remove(name)
            after = everything()
            added, deleted = sorted(after - before), sorted(before - after)
            evolved = ng.will_change(deleted, added)
            incr = {str(p) for p in (evolved if evolved is not None else ng).files()}
            fresh_ng = NamedGlob(pattern)
            fresh_ng.glob()
            fresh = {str(p) for p in fresh_ng.files()}
            nd = lambda ps: {p for p in ps if not p.endswith("/") and not os.path.isdir(p)}  # noqa: E731
            if nd(incr) != nd(fresh):
                ctx.finding(Finding(PID, "nglob-symlink-incremental-differs",
                                    f"{pattern!r}: the update with deleted={deleted} added={added} gives {sorted(nd(incr))}, a "
                                    f"fresh scan gives {sorted(nd(fresh))}",
                                    {"pattern": pattern, "links": links, "added": added, "deleted": deleted,
                                     "incremental": sorted(nd(incr)), "fresh": sorted(nd(fresh))}))
        finally:
            os.chdir(cwd)
            shutil.rmtree(d, ignore_errors=True)


async def search(ctx):
    symlink_oracle(ctx)
    # 1. witnesses of the negation theorems, replayed on the implementation
    rec1, rec2 = witness_phantom()
    if rec1 == ["n/"] or rec2 == ["a/f1/"]:
        _report(ctx, SIG_PHANTOM,
                f"NamedGlob('n/**').glob() in an empty directory records {rec1!r}; NamedGlob('a/f1/**').glob() with "
                f"`a/f1` a regular file records {rec2!r}: the base of a trailing `**` is recorded without an "
                f"existence check",
                {"witness": "phantom_base_negation", "pattern": "n/**", "tree": [], "recorded": rec1,
                 "pattern2": "a/f1/**", "tree2": ["a/", "a/f1"], "recorded2": rec2})
    rec, globbed = witness_newline()
    if "d/a\nb/f.txt" in globbed and "d/a\nb/f.txt" not in rec:
        _report(ctx, SIG_NEWLINE,
                f"pattern 'd/**' on the tree d/ok.txt, d/a\\nb/f.txt records {rec!r} while glob.glob returns "
                f"{globbed!r}: `**` compiles to `.*` without DOTALL, so a name containing a newline is never recorded",
                {"witness": "newline_negation", "pattern": "d/**", "tree": ["d/", "d/a\nb/", "d/a\nb/f.txt", "d/ok.txt"],
                 "recorded": rec, "globbed": globbed})
    for sig, pattern, tree_list, q, why in OVERACCEPT_WITNESSES:
        obs = witness_overaccept(pattern, tree_list, q)
        if obs["accepted"] and not obs["recorded"]:
            _report(ctx, sig, f"NamedGlob({pattern!r}) on the tree {tree_list!r}: the regex {obs['regex']!r} accepts the "
                    f"existing path {q!r}, glob.glob({obs['glob']!r}) returns {obs['globbed']!r}, so it is not recorded; "
                    + why, {"witness": sig, "pattern": pattern, "subs": {}, "tree": tree_list, "path": q, **obs})
    try:
        got = await asyncio.wait_for(witness_workflow_newline(), 30)
        if not got:
            _report(ctx, SIG_NEWLINE, "Workflow.matches_any_glob('d/a\\nb') is False although the registered pattern "
                    "'d/**' globs that path: the stored regex is compiled without DOTALL",
                    {"witness": "matches_any_glob", "pattern": "d/**", "path": "d/a\nb"})
    except Exception as exc:  # pragma: no cover
        ctx.stats.count("oracle:workflow-witness-error:" + type(exc).__name__)
    # 2. workflow level: persisted registrations after a restart rescan and after a watcher update
    rw = ctx.rng("workflow")
    for i in range(ctx.budget(330, 6000)):
        mode = ("rescan", "watch", "watchdir")[i % 3]
        try:
            probs = await asyncio.wait_for(workflow_scenario(rw, exotic=(i % 7 == 6), mode=mode), 120)
        except asyncio.TimeoutError:
            probs = [("nglob-workflow-hang", f"workflow scenario {i} ({mode}) did not finish", {"_unexpected": True})]
        ctx.stats.count("oracle:workflow-" + mode)
        while STATS_HOOK:
            m, nreg, nchanged, dup = STATS_HOOK.pop()
            ctx.stats.count(f"oracle:workflow-{m}:{'changed' if nchanged else 'unchanged'}")
            if dup:
                ctx.stats.count(f"oracle:workflow-{m}:identical-patterns")
            if nchanged >= 2:
                ctx.stats.count(f"oracle:workflow-{m}:several-steps-changed")
        for sig, what, detail in probs:
            if sig not in DOCUMENTED:
                detail = dict(detail, _unexpected=True)
            _report(ctx, sig, what, detail)
    # 3. generated cases
    jobs = await workload(ctx)
    r = ctx.rng("oracle")
    for job in jobs:
        existing1, existing2 = set(tree_paths(job.entries)), set(tree_paths(job.entries2))
        for row in job.rows:
            ng1 = row.get("scan_obj")
            if ng1 is None:
                continue
            c = row["case"]
            if row.get("simple") is False:
                # class syntax outside the comparison: tally what the oracle sees, never a finding by itself
                for sig, what, detail in check_recorded(c.pattern, c.subs, existing1,
                                                        {str(p) for p in ng1.files()}, row["accepted1"], row["globbed"]):
                    if sig in DOCUMENTED:
                        _report(ctx, sig, what, detail)
                    else:
                        _tally(ctx, "unsupported-class:" + sig)
                continue
            marked = {p + "/" if (p + "/") in existing1 and not p.endswith("/") else p for p in row["globbed"]}
            for sig, what, detail in check_recorded(c.pattern, c.subs, existing1, {str(p) for p in ng1.files()},
                                                    row["accepted1"], marked):
                if sig == "nglob-glob-incomplete":
                    why = _expected_incomplete(c.pattern, c.subs, detail)
                    if why:
                        _tally(ctx, "expected-incomplete:" + why)
                        continue
                    detail["_unexpected"] = True
                elif sig == "nglob-globbed-not-recorded" and _expected_incomplete(c.pattern, c.subs, detail):
                    _tally(ctx, "expected-mismatch:" + _expected_incomplete(c.pattern, c.subs, detail))
                    continue
                elif sig not in DOCUMENTED:
                    detail["_unexpected"] = True
                _report(ctx, sig, what, detail)
            # incremental update versus fresh scan of the changed tree
            got, fresh, unchanged = row["incr"]
            if got != fresh:
                got_s = {str(p) for ps in got.values() for p in ps}
                fresh_s = {str(p) for ps in fresh.values() for p in ps}
                ghosts = sorted(p for p in (fresh_s ^ got_s) if p not in existing2)
                only_incr = sorted(got_s - fresh_s)
                detail = {"pattern": c.pattern, "subs": c.subs, "tree": sorted(existing1), "tree_after": sorted(existing2),
                          "incremental": show_plain(got), "fresh": show_plain(fresh)}
                only_fresh = sorted(fresh_s - got_s)
                # paths the incremental update keeps because the regex accepts them although the glob cannot
                # return them: one of the documented over-acceptance classes, or a modelled limit
                over = {p: classify_overaccept(ng1, c.pattern, p) for p in only_incr
                        if p in existing2 and p not in row["fresh2"]}
                never = [p for p in only_incr if p not in existing1 and p not in existing2]
                fresh_ghosts = [p for p in only_fresh if p not in existing2]
                if (only_incr or only_fresh) and len(never) == len(only_incr) and len(fresh_ghosts) == len(only_fresh) \
                        and all(p.endswith("/") for p in never + fresh_ghosts):
                    _report(ctx, SIG_PHANTOM, f"the first scan of {c.pattern!r} recorded {never!r}, which never existed, and "
                            f"the incremental update keeps it; a fresh scan of the changed tree records {fresh_ghosts!r}, "
                            f"which does not exist", detail)
                elif ghosts and all(p.endswith("/") for p in ghosts) and not [p for p in only_fresh if p in existing2] \
                        and not only_incr:
                    _report(ctx, SIG_PHANTOM, f"after the change set the fresh scan of {c.pattern!r} records {ghosts!r}, "
                            f"which does not exist; the incremental update does not", detail)
                elif not only_fresh and only_incr and len(over) == len(only_incr) and all(over.values()):
                    for sig in sorted(set(over.values())):
                        qs = [p for p, v in over.items() if v == sig]
                        _report(ctx, sig, f"will_change of {c.pattern!r} records {qs!r} (accepted by the regex "
                                f"{ng1._regex.pattern!r}); a fresh scan of the changed tree does not", detail)
                elif not only_fresh and only_incr and _expected_incomplete(c.pattern, c.subs, only_incr) and \
                        all(p in row["accepted2"] for p in only_incr):
                    _tally(ctx, "expected-incomplete:incremental")
                else:
                    detail["_unexpected"] = True
                    _report(ctx, "nglob-incremental-differs",
                            f"will_change of {c.pattern!r} gives {show_plain(got)!r}, a fresh scan of the changed tree "
                            f"gives {show_plain(fresh)!r}", detail)
            ctx.stats.count("oracle:incremental-checked")
            # repeated names
            if repeated_names(c.pattern):
                bad = check_backrefs(ng1, c.pattern, c.subs, sorted(existing1) + job.probes)
                ctx.stats.count("oracle:backref-checked")
                if bad:
                    _report(ctx, "nglob-backref-unequal", f"{c.pattern!r} matches {bad[0]!r} with {bad[1]!r} but the "
                            f"pattern with the bound text substituted ({bad[2]!r}) does not",
                            {"pattern": c.pattern, "subs": c.subs, "path": bad[0], "binding": bad[1], "_unexpected": True})
            # anonymous versus named
            variant = anon_named_variants(r, c.pattern)
            if variant is not None:
                try:
                    with warnings.catch_warnings():
                        warnings.simplefilter("ignore")
                        ngv = NamedGlob(variant, dict(c.subs))
                except (ValueError, re.error):
                    continue
                ctx.stats.count("oracle:anon-named-checked")
                probe = sorted(existing1) + job.probes
                a = [p for p in probe if ng1._regex.fullmatch(p)]
                b = [p for p in probe if ngv._regex.fullmatch(p)]
                if a != b:
                    _report(ctx, "nglob-anon-named-differs",
                            f"{c.pattern!r} accepts {sorted(set(a) - set(b))!r} more and {sorted(set(b) - set(a))!r} fewer "
                            f"paths than {variant!r}",
                            {"pattern": c.pattern, "variant": variant, "subs": c.subs, "only_anonymous": sorted(set(a) - set(b)),
                             "only_named": sorted(set(b) - set(a)), "_unexpected": True})


def show_plain(res) -> dict:
    return {"|".join(k): sorted(str(p) for p in ps) for k, ps in sorted(res.items())}


async def replay(ctx, detail):
    d = detail.get("detail", {})
    sig = detail.get("signature")
    if sig == SIG_PHANTOM and d.get("witness"):
        rec1, rec2 = witness_phantom()
        return {"reproduced": rec1 == ["n/"] or rec2 == ["a/f1/"], "recorded": [rec1, rec2]}
    if sig == SIG_NEWLINE and d.get("witness"):
        rec, globbed = witness_newline()
        return {"reproduced": "d/a\nb/f.txt" in globbed and "d/a\nb/f.txt" not in rec, "recorded": rec, "globbed": globbed}
    if sig in (SIG_NEGCLASS, SIG_RECBASE, SIG_BREFEMPTY, SIG_WILDRUN) and d.get("witness"):
        obs = witness_overaccept(d["pattern"], d["tree"], d["path"])
        return {"reproduced": obs["accepted"] and not obs["recorded"], **obs}
    if "registrations" in d and "tree_after" in d:
        def ent(lst):
            return {tuple(p.rstrip("/").split("/")): p.endswith("/") for p in lst}
        regs = d["registrations"]
        pats = [(x["pattern"], dict(x["subs"])) for x in regs]
        owner = [int(re.sub(r"\D", "", x["step"])) for x in regs]
        probs = await run_workflow_scenario(ent(d["tree"]), ent(d["tree_after"]), pats, owner,
                                            int(d.get("nsteps", max(owner) + 1)), d.get("mode", "rescan"))
        return {"reproduced": any(s_ == sig for s_, _, _ in probs), "observed": [(s_, w) for s_, w, _ in probs]}
    if "pattern" in d and "tree" in d:
        entries = {}
        for p in d["tree"]:
            entries[tuple(p.rstrip("/").split("/"))] = p.endswith("/")
        tree = RealTree(entries)
        try:
            ng = NamedGlob(d["pattern"], dict(d.get("subs", {})))
            ng.glob()
            recorded = {str(p) for p in ng.files()}
            existing = set(tree_paths(entries))
            accepted = {p for p in existing if ng._regex.fullmatch(p)}
            globbed = set(pyglob.glob(ng._glob_pattern, recursive=True, include_hidden=True))
            marked = {p + "/" if (p + "/") in existing and not p.endswith("/") else p for p in globbed}
            res = list(check_recorded(d["pattern"], dict(d.get("subs", {})), existing, recorded, accepted, marked))
        finally:
            tree.close()
        return {"reproduced": any(s == sig for s, _, _ in res) or (sig is None and bool(res)),
                "observed": [(s, w) for s, w, _ in res], "recorded": sorted(recorded)}
    return {"reproduced": False, "note": "nothing to replay in this file"}
