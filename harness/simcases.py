"""Shared pieces of the simulated-build oracles of C03 and C05 (run inside `simpool` workers).

* `explicit_project(model)`: a `projgen` model rendered with *explicit* step scripts.  A command is
  a deterministic function of its declared inputs and environment variables, so every step
  reads exactly the inputs its declaration lists (taken from the model, like a command line would
  carry them) and writes exactly its outputs.  `projgen.render` uses `read_declared` /
  `write_declared` instead, which ask the director (`get_step_info`) while the step runs; that
  answer is partial while the step's creator is re-running (inputs whose producer is detached at
  that moment are left out), which would make the *simulated command* behave differently for a
  reason that has nothing to do with the files it reads.
* `RowWatch`: an `on_commit` observer that records the committed state of every step row with the
  logical time, and afterwards reports every command execution window during which the row of the
  executing step was not RUNNING (finding F9: a running step that is redefined by its re-running
  creator is reset to PENDING while its command is still in flight).
"""

from __future__ import annotations

import re

RUNNING = 22


def explicit_project(model, defer_sub: bool = False):
    """`defer_sub`: the sub-plan, after defining its steps, amends an output of a step of the main plan.
    That input is usually not built yet, so the sub-plan is deferred while its own steps already run; when
    it runs again its `reset_for_rerun` detaches them while they are RUNNING and its new run recycles them
    (the pattern of the repository's example `detach_running_step`)."""
    import projgen
    from simdirector import A

    project = projgen.render(model)
    if defer_sub and model.has_sub:
        # only an output that does not itself (transitively) need an output of a sub-plan step: otherwise the
        # sub-plan would wait for something that waits for the sub-plan's own steps
        tainted = set()
        for s in model.steps:
            if s.plan == projgen.SUB:
                tainted |= set(s.all_outputs()) | projgen._downstream(model, s)
        main_outs = [s.out[0] for s in model.steps
                     if s.plan == projgen.MAIN and s.out and not s.optional and not (set(s.all_outputs()) & tainted)]
        if main_outs:
            project.scripts[projgen.SUB_CMD] = list(project.scripts[projgen.SUB_CMD]) + [
                A.amend(inp=[main_outs[0]]), A.read(main_outs[0])]
            project.files[projgen.SUB_FILE] = __import__("simdirector").plan_file(project.scripts[projgen.SUB_CMD])
    for step in model.steps:
        actions = [A.read(p) for p in step.inp] + [A.getenv(e) for e in step.env]
        if step.amend_inp:
            actions.append(A.amend(inp=list(step.amend_inp)))
            actions.extend(A.read(p) for p in step.amend_inp)
        if step.fail:
            actions.append(A.exit(1))
        if step.amend_out:
            actions.append(A.amend(out=list(step.amend_out)))
        actions.extend(A.write(p) for p in step.out + step.vol + step.amend_out)
        project.scripts[step.cmd] = actions
    ext = model.glob_out_ext

    def conv(ctx):
        name = ctx.label.split(" ", 1)[1]
        yield A.read(f"g/{name}.in")
        yield A.write(f"out/g_{name}.{ext}")

    conv.version = ext
    project.rules = [(r"conv \S+", conv)]
    return project


class RowWatch:
    """Committed step states over logical time."""

    def __init__(self):
        self.samples: list[tuple[int, int, dict]] = []  # (commit index, logical time, label -> state)

    def __call__(self, sim, k):
        session = sim.session
        t = session.clock.t if session is not None else 0
        rows = dict(sim.query("SELECT label, state FROM node JOIN step ON step.node = node.i"))
        self.samples.append((k, t, rows))

    def windows_not_running(self, runs) -> list[dict]:
        """Executions whose step row was not RUNNING at some commit strictly inside the window in
        which the command ran."""
        bad = []
        for run in runs:
            if run.end is None:
                continue
            for k, t, rows in self.samples:
                if run.start < t < run.end and rows.get(run.label, RUNNING) != RUNNING:
                    bad.append({"step": run.label, "attempt": run.attempt, "job": run.job_i, "commit": k,
                                "state": rows.get(run.label), "window": [run.start, run.end]})
                    break
        return bad


def job_state_anomalies(samples, jobs) -> list[dict]:
    """Jobs during which the row of their step went through states that the job itself cannot produce.

    While a job is in flight the only writer of its step's state is the job: a RUN job keeps the row RUNNING
    and ends it SUCCEEDED, FAILED or PENDING (deferral); a SKIP / VALIDATE_DYNAMIC job keeps it CHECKING and
    ends it SUCCEEDED, PENDING or FAILED (an input changed under the check).  Any other sequence means that the row was re-initialised under the job
    (the step was redefined by its re-running creator): F9.  `samples`: (commit, time, label -> state)."""
    bad = []
    for job in jobs:
        if job.completed is None:
            continue
        seq = []
        for k, t, rows in samples:
            if job.dispatched < t < job.completed and job.label in rows:
                if not seq or seq[-1] != rows[job.label]:
                    seq.append(rows[job.label])
        busy = RUNNING if job.kind == "RUN" else 25
        finals = (23, 24, 21)  # SUCCEEDED, FAILED (also a hash check that finds a changed input), PENDING
        ok = seq in ([], [busy]) or (len(seq) == 1 and seq[0] in finals) or \
            (len(seq) == 2 and seq[0] == busy and seq[1] in finals)
        if not ok:
            bad.append({"step": job.label, "job": job.job_i, "kind": job.kind, "states": seq,
                        "window": [job.dispatched, job.completed]})
    return bad


def jobs_in_flight_twice(jobs) -> list[dict]:
    """Steps with two jobs (RUN, SKIP or VALIDATE_DYNAMIC) in flight at the same time: the row of a step
    whose job is in flight was re-initialised (F9), so the scheduler dispatched it again."""
    bad = []
    by_label: dict[str, list] = {}
    for job in jobs:
        by_label.setdefault(job.label, []).append(job)
    for label, group in by_label.items():
        group.sort(key=lambda j: j.dispatched)
        for a, b in zip(group, group[1:]):
            if a.completed is None or b.dispatched < a.completed:
                bad.append({"step": label, "jobs": [a.job_i, b.job_i], "kinds": [a.kind, b.kind],
                            "windows": [[a.dispatched, a.completed], [b.dispatched, b.completed]]})
                break
    return bad


def strip_tag(label: str) -> str:
    return re.sub(r" -s [0-9a-f]{6}$", "", label)
