"""Correspondence of the executor's hash-check decisions (`lean/StepupModel/P/Skip.lean`) with
the real coroutines `Executor.try_skip_job`, `Executor.validate_dynamic_job` and
`Executor._run_hash_job`.

The real coroutines run inside simulated builds (`simdirector`).  Thin recording wrappers, active
only while a scenario runs, note for every call the digests the real code computed
(`_new_run`, `_compute_out_step_hash`, the hash worker's result) and which `Step` / `Workflow`
methods it invoked for the step (`reset_for_rerun`, `delete_hash`, `set_state`, `mark_completed`,
`update_file_hashes`), attributed to the call by a context variable (every job is its own
asyncio task).  The model driver gets the digests and must predict the same methods.

Scenarios: a chain with a step that writes a constant (so that its consumers are re-checked with
equal digests and skipped), outputs that the user deletes / modifies / restores between builds,
sources edited between builds and while the build runs, amended inputs, redefinitions; plus
projgen histories.
"""

from __future__ import annotations

import asyncio
import contextlib
import contextvars
import copy

import buildkit
import common
import implkit  # noqa: F401
import projgen
from simdirector import A, Project, SimDirector, plan_file

from stepup.core.enums import HashUpdateCause
from stepup.core.executor import Executor
from stepup.core.step import Step
from stepup.core.workflow import Workflow

_CALL: contextvars.ContextVar = contextvars.ContextVar("skipcorr_call", default=None)


class Recorder:
    def __init__(self):
        self.calls: list[dict] = []

    @contextlib.contextmanager
    def active(self):
        saved = []

        def patch(cls, name, make):
            orig = getattr(cls, name)
            saved.append((cls, name, orig))
            setattr(cls, name, make(orig))

        rec = self

        def wrap_job(kind):
            def make(orig):
                async def wrapped(self, job_i, step, inp_hashes, env_deps, step_hash):
                    call = {"kind": kind, "step": step.label, "step_i": step.i,
                            "stored_inp": step_hash.inp_digest.hex(), "stored_out": step_hash.out_digest.hex(),
                            "new_inp": "~", "new_out": "~", "ops": [], "recorded": None}
                    token = _CALL.set(call)
                    try:
                        return await orig(self, job_i, step, inp_hashes, env_deps, step_hash)
                    finally:
                        _CALL.reset(token)
                        rec.calls.append(call)
                return wrapped
            return make

        def make_new_run(orig):
            async def wrapped(self, job_i, step, inp_hashes, env_deps):
                run, new_hash = await orig(self, job_i, step, inp_hashes, env_deps)
                call = _CALL.get()
                if call is not None and call["kind"] in ("skip", "validate"):
                    call["new_inp"] = "~" if new_hash is None else new_hash.inp_digest.hex()
                return run, new_hash
            return wrapped

        def make_out_hash(orig):
            async def wrapped(self, run, step_hash):
                new_hash, new_out = await orig(self, run, step_hash)
                call = _CALL.get()
                if call is not None and call["kind"] == "skip":
                    call["new_out"] = "~" if new_hash is None else new_hash.out_digest.hex()
                return new_hash, new_out
            return wrapped

        def step_method(name, fmt):
            def make(orig):
                def wrapped(self, *args, **kwargs):
                    call = _CALL.get()
                    if call is None or call.get("step_i") != self.i or call.get("depth", 0) > 0:
                        return orig(self, *args, **kwargs)
                    # only what the executor itself invokes: calls made from inside are not logged
                    call["ops"].append(fmt(call, *args, **kwargs))
                    call["depth"] = 1
                    try:
                        return orig(self, *args, **kwargs)
                    finally:
                        call["depth"] = 0
                return wrapped
            return make

        def fmt_completed(call, new_hash, wants_defer):
            if new_hash is None:
                return "mark_completed:none"
            call["recorded"] = (new_hash.inp_digest.hex(), new_hash.out_digest.hex())
            return "mark_completed:hash"

        def make_update(orig):
            def wrapped(self, file_hashes, *, cause):
                call = _CALL.get()
                if call is not None:
                    if call["kind"] == "hashjob":
                        call["applied"] = True
                        call["applied_cause"] = cause.name
                    elif cause == HashUpdateCause.SUCCEEDED:
                        call["ops"].append("update_file_hashes:SUCCEEDED")
                return orig(self, file_hashes, cause=cause)
            return wrapped

        def make_hash_job(orig):
            async def wrapped(self, hash_job):
                call = {"kind": "hashjob", "path": hash_job.path, "cause": hash_job.cause.name,
                        "old": _hash_tok(hash_job.old_hash), "new": None, "applied": False}
                token = _CALL.set(call)
                try:
                    return await orig(self, hash_job)
                finally:
                    _CALL.reset(token)
                    fut = hash_job.future
                    if fut.done() and not fut.cancelled() and fut.exception() is None:
                        call["new"] = _hash_tok(fut.result())
                        rec.calls.append(call)
            return wrapped

        try:
            patch(Executor, "try_skip_job", wrap_job("skip"))
            patch(Executor, "validate_dynamic_job", wrap_job("validate"))
            patch(Executor, "_new_run", make_new_run)
            patch(Executor, "_compute_out_step_hash", make_out_hash)
            patch(Executor, "_run_hash_job", make_hash_job)
            patch(Step, "reset_for_rerun", step_method("reset_for_rerun", lambda c: "reset_for_rerun"))
            patch(Step, "delete_hash", step_method("delete_hash", lambda c: "delete_hash"))
            patch(Step, "set_state", step_method("set_state", lambda c, state, deferred=False: f"set_state:{state.name}"))
            patch(Step, "mark_completed", step_method("mark_completed", fmt_completed))
            patch(Workflow, "update_file_hashes", make_update)
            yield self
        finally:
            for cls, name, orig in reversed(saved):
                setattr(cls, name, orig)


def _hash_tok(h) -> str:
    return f"{h.digest.hex()}.{h.mode}.{h.size}"


# ---------------------------------------------------------------------------------------------
# Scenarios
# ---------------------------------------------------------------------------------------------


def chain_project(r) -> Project:
    """src/a.txt -> `mid` (writes a constant) -> `leaf` (+ src/b.txt) -> `top`; `dyn` amends an
    input after its declared ones."""
    const = r.random() < 0.8
    mid = [A.read_declared(), A.write("out/mid.txt", "constant\n" if const else None)]
    late = r.random() < 0.5
    main = [
        A.step("mid -k", inp=["src/a.txt"], out=["out/mid.txt"]),
        A.step("leaf", inp=["out/mid.txt", "src/b.txt"], out=["out/leaf.txt"], env=["SIM_A"]),
        A.step("top", inp=["out/leaf.txt"], out=["out/top.txt", "out/top.aux"]),
        A.step("dyn -k", inp=["src/c.txt"], out=["out/dyn.txt"]),
    ]
    statics = A.static("src/a.txt", "src/b.txt", "src/c.txt", "src/d.txt")
    # Declaring the sources last leaves amended inputs unavailable while the plan re-runs, which
    # is when a step with a stored hash gets a ValidateDynamicJob.
    main = [*main, statics] if late else [statics, *main]
    scripts = {
        "./plan.py": main,
        "mid -k": mid,
        "dyn -k": [A.read_declared(), A.amend(inp=["out/mid.txt", "src/d.txt"]), A.read("out/mid.txt"),
                   A.read("src/d.txt"), A.write_declared()],
    }
    files = {"src/a.txt": "a0\n", "src/b.txt": "b0\n", "src/c.txt": "c0\n", "src/d.txt": "d0\n"}
    return Project(scripts=scripts, files=files, env={"SIM_A": "0"})


EDITS = [
    ("edit-a", [("write", "src/a.txt", None)]),
    ("edit-b", [("write", "src/b.txt", None)]),
    ("edit-c", [("write", "src/c.txt", None)]),
    ("touch-a", [("touch", "src/a.txt")]),
    ("rm-leaf-out", [("remove", "out/leaf.txt")]),
    ("mod-leaf-out", [("write", "out/leaf.txt", "tampered\n")]),
    ("mod-top-aux", [("write", "out/top.aux", "tampered\n")]),
    ("rm-mid-out", [("remove", "out/mid.txt")]),
    ("mod-mid-out", [("write", "out/mid.txt", "tampered\n")]),
    ("rm-dyn-out", [("remove", "out/dyn.txt")]),
    ("edit-d", [("write", "src/d.txt", None)]),
    ("rewrite-plan", [("plan",)]),
    ("rewrite-plan", [("plan",)]),
]


def run_chain(r, recorder: Recorder) -> dict:
    """One scenario on the chain project; returns a summary."""
    project = chain_project(r)
    counter = [0]

    def realise(edits):
        out = []
        for e in edits:
            if e[0] == "plan":
                counter[0] += 1
                out.append(("write", "plan.py", plan_file(project.scripts["./plan.py"], note=f"n{counter[0]}")))
            elif e[0] == "write" and e[2] is None:
                counter[0] += 1
                out.append(("write", e[1], f"{e[1]} v{counter[0]}\n"))
            else:
                out.append(e)
        return out

    labels = []
    broken = False
    with SimDirector(project, seed=r.randrange(1 << 30)) as sim, recorder.active():
        first = sim.build(njob=r.randint(1, 3))
        broken = first.status != "done"
        for _ in range(r.randint(2, 4)):
            chosen = r.sample(EDITS, r.randint(1, 2))
            labels.append("+".join(name for name, _ in chosen))
            for _, edits in chosen:
                sim.apply(realise(edits))
            kwargs = {"njob": r.randint(1, 3)}
            if r.random() < 0.3:
                # the user edits a source while the build runs (unexpected input change)
                name, edits = r.choice(EDITS[:3])
                labels[-1] += f"|during:{name}"
                kwargs["external"] = [(r.randint(2, 30), realise(edits))]
            if r.random() < 0.15:
                sim.setenv("SIM_A", str(r.randint(1, 3)))
                labels[-1] += "|env"
            if broken:
                break
            res = sim.build(**kwargs)
            if res.status != "done":
                broken = True
                break
    return {"scenario": labels, "broken": broken}


def run_projgen(r, recorder: Recorder) -> dict:
    model = projgen.gen_model(r)
    hist = buildkit.gen_hist(r, model, watch_prob=0.3)
    with recorder.active():
        results = projgen.run_history(projgen.render(model), hist.events, seed=r.randrange(1 << 30))
    return {"scenario": hist.mutations, "broken": any(x.status != "done" for x in results)}


# ---------------------------------------------------------------------------------------------
# Comparison with the model
# ---------------------------------------------------------------------------------------------


def check_calls(ctx, calls: list[dict], scenario, only=("skip", "validate", "hashjob")):
    lines = []
    expected = []
    for call in calls:
        kind = call["kind"]
        if kind not in only:
            continue
        if kind == "skip":
            lines.append(f"c01 skip {call['stored_inp']} {call['stored_out']} {call['new_inp']} {call['new_out']}")
            if call["ops"] == ["update_file_hashes:SUCCEEDED", "mark_completed:hash"]:
                name = "skipped:%s:%s" % call["recorded"]
            else:
                name = None  # any non-skip result: compare the operations only
            expected.append((call, name, ",".join(call["ops"]) or "."))
        elif kind == "validate":
            lines.append(f"c01 validate {call['stored_inp']} {call['new_inp']}")
            expected.append((call, None, ",".join(call["ops"]) or "."))
        else:
            lines.append(f"c04 hashjob {call['old']} {call['new']} {call['cause']}")
            expected.append((call, None, "1" if call["applied"] else "0"))
    if not lines:
        return
    answers = common.run_driver(lines)
    st = ctx.stats
    for line, ans, (call, name, ops) in zip(lines, answers, expected):
        kind = call["kind"]
        if kind == "hashjob":
            st.case(("hashjob", call["cause"], call["old"] == call["new"], call["applied"]))
            st.count(f"hashjob:{call['cause']}:{'same' if call['old'] == call['new'] else 'changed'}:"
                     f"{'applied' if call['applied'] else 'dropped'}")
            if ans != ops:
                ctx.disagree("executor:_run_hash_job", {"request": line, "call": call, "scenario": scenario}, ans, ops)
            continue
        model_name, _, model_ops = ans.partition(" ")
        st.case((kind, call["stored_inp"], call["new_inp"], call["stored_out"], call["new_out"]))
        st.count(f"{kind}:{model_name.split(':')[0]}")
        if model_ops != ops or (name is not None and model_name != name) or \
                (name is None and model_name.startswith("skipped")):
            ctx.disagree(f"executor:{'try_skip_job' if kind == 'skip' else 'validate_dynamic_job'}",
                         {"request": line, "call": {k: v for k, v in call.items()}, "scenario": scenario},
                         ans, f"{name or '(not skipped)'} {ops}")


async def run(ctx, only=("skip", "validate", "hashjob"), quick=(36, 10), thorough=(500, 150)):
    nchain, nhist = quick if ctx.tier == "quick" else thorough
    if only == ("hashjob",):
        nchain, nhist = max(8, nchain // 3), max(6, nhist // 2)

    def work():
        out = []
        nbroken = 0
        for i in range(nchain):
            if nbroken >= 3:  # a hanging or dying director costs a watchdog period per build
                break
            rec = Recorder()
            r = ctx.rng("skipcorr", "chain", i)
            summary = run_chain(r, rec)
            nbroken += summary["broken"]
            out.append((rec.calls, summary["scenario"]))
        for i in range(nhist):
            if nbroken >= 3:
                break
            rec = Recorder()
            r = ctx.rng("skipcorr", "hist", i)
            summary = run_projgen(r, rec)
            nbroken += summary["broken"]
            out.append((rec.calls, summary["scenario"]))
        if nbroken:
            ctx.stats.count("executor-scenarios-with-a-broken-director", nbroken)
        return out

    results = await asyncio.to_thread(work)
    for calls, scenario in results:
        check_calls(ctx, copy.deepcopy(calls), scenario, only)
    ctx.stats.programs += len(results)
    ctx.extra["executor_decision_scenarios"] = len(results)
    if ctx.stats.samples is not None and results:
        for calls, scenario in results[:1]:
            picked = [c for c in calls if c["kind"] in only][:3]
            if picked:
                ctx.stats.sample({"executor_calls": picked, "scenario": scenario})
