"""Entry point of every check: ./check <ID> [--tier quick|thorough] [--replay file]

Protocol (DESIGN.md section 11):
 1. regenerate the Lean tables from /repo's working tree;
 2. build the model driver and the property's theorems;
 3. audit axioms and forbidden tokens;
 4. run the correspondence between the Lean model and the implementation;
 5. run the implementation-side oracle (always, as the failing-input search; with leads from
    2-4 when something broke);
 6. match findings against known_findings.jsonl, write evidence, print VIOLATION lines.
Exit 0: property held; 1: violation; 2: tool failure / timeout.
"""

from __future__ import annotations

import argparse
import asyncio
import faulthandler
import importlib
import json
import os
import sys
import time
import traceback

sys.path.insert(0, os.path.dirname(os.path.abspath(__file__)))

import common  # noqa: E402
from common import Finding, Stats, log  # noqa: E402


class Ctx:
    def __init__(self, pid: str):
        self.pid = pid
        self.tier = common.tier()
        self.seed = common.seed()
        self.stats = Stats()
        self.findings: list[Finding] = []
        self.disagreements: list[dict] = []  # model vs implementation diffs
        self.broken: list[dict] = []  # broken obligations (theorems, tables, audit)
        self.table_changes: list[str] = []
        self.build = None
        self.audit = None
        self.driver_ok = False
        self.extra: dict = {}
        self.t0 = time.time()

    def rng(self, *salt):
        return common.rng(self.pid, *salt)

    def budget(self, quick: int, thorough: int) -> int:
        return thorough if self.tier == "thorough" else quick

    def disagree(self, scope: str, inp, model, impl):
        self.stats.disagreements += 1
        if len(self.disagreements) < 20:
            self.disagreements.append({"scope": scope, "input": inp, "model": model, "impl": impl})

    def finding(self, f: Finding):
        if all(g.signature != f.signature for g in self.findings):
            self.findings.append(f)


def matches_known(f: Finding, known: list[dict]) -> dict | None:
    for k in known:
        if k.get("status", "known") == "known" and k.get("signature") == f.signature:
            return k
    return None


async def amain(pid: str, replay: str | None) -> int:
    mod = importlib.import_module(f"props.{pid.lower()}")
    ctx = Ctx(pid)
    known = common.load_known(pid)

    if replay:
        detail = json.loads(open(replay).read())
        res = await mod.replay(ctx, detail)
        print(json.dumps(res, indent=1, default=str))
        return 1 if res.get("reproduced") else 0

    # stale replay files of an earlier run with this seed would only confuse
    import glob as _glob

    for old in _glob.glob(str(common.WORK / "replays" / f"{pid}-seed{common.seed()}-*.json")):
        os.unlink(old)
    # 1. tables
    import gen_tables

    try:
        ctx.table_changes = gen_tables.generate()
    except Exception as exc:  # a table that cannot be extracted is a broken tie
        ctx.broken.append({"kind": "table-extraction", "error": f"{type(exc).__name__}: {exc}",
                           "traceback": traceback.format_exc()[-3000:]})
    # 2. build
    drv = common.lake_build(["driver"])
    ctx.driver_ok = drv.ok
    if not drv.ok:
        ctx.broken.append({"kind": "driver-build", "errors": drv.errors[:20], "output": drv.output[-3000:]})
    targets = list(getattr(mod, "LEAN_TARGETS", [f"StepupModel.Props.{pid}"]))
    ctx.build = common.lake_build(targets)
    names = common.theorems_of(pid)[1]
    discharged: list[str] = []
    if not ctx.build.ok:
        ctx.broken.append({"kind": "theorem-build", "targets": targets, "errors": ctx.build.errors[:30],
                           "output": ctx.build.output[-4000:]})
    else:
        # 3. audit
        ctx.audit = common.audit(pid)
        discharged = [n for n in names if n in ctx.audit.theorems and n not in ctx.audit.bad]
        if not ctx.audit.ok:
            ctx.broken.append({"kind": "audit", "bad_axioms": ctx.audit.bad, "missing": ctx.audit.missing,
                               "forbidden_tokens": ctx.audit.forbidden, "output": ctx.audit.output[-2000:]})
        if ctx.tier == "thorough":
            ok, out = common.leanchecker(targets)
            ctx.extra["leanchecker"] = {"modules": targets, "ok": ok}
            if not ok:
                ctx.broken.append({"kind": "leanchecker", "modules": targets, "output": out})
    # 4. correspondence
    if ctx.driver_ok:
        try:
            await mod.correspond(ctx)
        except common.subprocess.TimeoutExpired:
            raise
        except Exception as exc:
            ctx.broken.append({"kind": "correspondence-crash", "error": f"{type(exc).__name__}: {exc}",
                               "traceback": traceback.format_exc()[-4000:]})
    # 5. oracle / failing-input search
    try:
        await mod.search(ctx)
    except Exception as exc:
        ctx.broken.append({"kind": "oracle-crash", "error": f"{type(exc).__name__}: {exc}",
                           "traceback": traceback.format_exc()[-4000:]})

    if os.environ.get("VERIF_DEBUG"):
        for d in ctx.disagreements:
            log("DIFF", json.dumps(d, ensure_ascii=False, default=str)[:1200])
        for b in ctx.broken:
            log("BROKEN", json.dumps(b, ensure_ascii=False, default=str)[:3000])
    # 6. verdict
    violations = 0
    n = 0
    for f in ctx.findings:
        k = matches_known(f, known)
        if k is not None:
            print(f"KNOWN-FINDING: property={pid} {k.get('signature')}: " + " | ".join(str(f.what).split("\n"))[:600])
            continue
        n += 1
        path = common.write_replay(pid, f, n)
        print(f"VIOLATION property={pid} replay={path}")
        violations += 1
    unexplained = bool(ctx.broken or ctx.disagreements)
    new_concrete = violations > 0
    if unexplained and not new_concrete:
        n += 1
        f = Finding(pid, "broken-obligation", "a proof obligation or the correspondence no longer checks",
                    {"broken": ctx.broken, "disagreements": ctx.disagreements,
                     "table_changes": ctx.table_changes}, no_input=True)
        path = common.write_replay(pid, f, n)
        print(f"VIOLATION property={pid} replay={path} no-failing-input-found")
        violations += 1
    elif unexplained:
        log(f"note: broken obligations/disagreements accompany the violation: "
            f"{[b['kind'] for b in ctx.broken]} {len(ctx.disagreements)} diffs")

    common.write_evidence(
        pid,
        level=getattr(mod, "LEVEL", "proof"),
        obligations=names,
        discharged=discharged,
        stats=ctx.stats,
        wall_s=time.time() - ctx.t0,
        violations=violations,
        assumptions=list(getattr(mod, "ASSUMPTIONS", [])),
        extra={**ctx.extra, "broken": ctx.broken, "table_changes": ctx.table_changes,
               "known_findings_reproduced": [f.signature for f in ctx.findings if matches_known(f, known)]},
    )
    log(f"[{pid}] tier={ctx.tier} seed={ctx.seed} theorems={len(discharged)}/{len(names)} "
        f"evals={ctx.stats.evaluations} distinct={len(ctx.stats.distinct)} diffs={ctx.stats.disagreements} "
        f"violations={violations} wall={time.time() - ctx.t0:.1f}s")
    return 1 if violations else 0


def main():
    ap = argparse.ArgumentParser()
    ap.add_argument("pid")
    ap.add_argument("--tier", choices=["quick", "thorough"])
    ap.add_argument("--replay")
    args = ap.parse_args()
    if args.tier:
        os.environ["VERIF_TIER"] = args.tier
    os.environ.setdefault(common.GUARD, "1")
    faulthandler.enable()
    limit = 3300 if common.tier() == "thorough" else 1500
    faulthandler.dump_traceback_later(limit, exit=True)
    try:
        rc = asyncio.run(amain(args.pid.upper(), args.replay))
    except common.subprocess.TimeoutExpired as exc:
        log(f"timeout: {exc}")
        rc = 2
    except Exception:
        traceback.print_exc()
        rc = 2
    sys.stdout.flush()
    os._exit(rc)


if __name__ == "__main__":
    main()
