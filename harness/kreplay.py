"""Replay kernel protocol lines (`k <op> ...`) on the real Workflow/Scheduler.

The generator (`corr_kernel.KernelRun`) executes requests while it chooses them; this module does
the opposite: it takes recorded lines (a replay file of a K-layer check, or a hand-written
history) and performs the same calls on a fresh in-memory database, so that a reported history can
be re-run against the implementation without the random generator.

    /venv/bin/python harness/kreplay.py <replay.json | lines.txt> [--tail N] [--dump substr ...]
"""

from __future__ import annotations

import asyncio
import contextlib
import json
import os
import sys
import traceback

sys.path.insert(0, os.path.dirname(os.path.abspath(__file__)))

import common  # noqa: E402
import implkit  # noqa: E402
import kdump  # noqa: E402
from common import hexlist, unhexlist, unhexs  # noqa: E402
from implkit import HashUpdateCause, Need, StepState  # noqa: E402

from stepup.core.file import File  # noqa: E402,F401
from stepup.core.hash import FileHash  # noqa: E402
from stepup.core.nglob import NamedGlob  # noqa: E402
from stepup.core.step import Step  # noqa: E402


def _key(tok: str):
    kind, label = tok.split(":", 1)
    return kind, unhexs(label)


def _pairs(tok: str) -> dict:
    return {} if tok == "." else {unhexs(a): unhexs(b) for a, b in (e.split("=") for e in tok.split(","))}


def _units(tok: str) -> dict:
    return {} if tok == "." else {unhexs(a): int(b) for a, b in (e.split("=") for e in tok.split(","))}


class Replayer:
    def __init__(self):
        self.wf = None
        self.sched = None
        self.answers: list[str] = []
        self.errors: list[str | None] = []
        self.cap = 100
        self.res_spec = None
        self.env: dict = {}
        self.targets: list = []
        self.tdirs: list = []

    def node(self, tok):
        kind, label = _key(tok)
        return self.wf.root if kind == "root" else self.wf.find(Step, label)

    def digest(self):
        return str(kdump.fnv1a("\n".join(kdump.dump_lines(self.wf))))

    async def tx(self, fn, result=lambda v: "-"):
        implkit.reset_watchdog(implkit.WATCHDOGS[id(self.wf)])
        err = None
        try:
            async with self.wf.db:
                value = fn()
            ans = "ok " + result(value)
        except Exception as exc:
            ans = "err " + implkit.classify_exc(exc)
            err = "".join(traceback.format_exception_only(type(exc), exc)).strip()
        async with self.wf.db:
            ans += " " + self.digest()
        return ans, err

    async def coro(self, make):
        implkit.reset_watchdog(implkit.WATCHDOGS[id(self.wf)])
        err = None
        try:
            await make()
            ans = "ok -"
        except Exception as exc:
            ans = "err " + implkit.classify_exc(exc)
            err = "".join(traceback.format_exception_only(type(exc), exc)).strip()
        async with self.wf.db:
            ans += " " + self.digest()
        return ans, err

    async def run(self, cm, lines):
        for line in lines:
            ans, err = await self.one(cm, line.split(" ")[1:])
            self.answers.append(ans)
            self.errors.append(err)
        return self.answers

    async def one(self, cm, t):  # noqa: C901, PLR0911, PLR0912, PLR0915
        from corr_kernel import SilentReporter
        from stepup.core.finalize import revert_optional_steps
        from stepup.core.job import RunJob
        from stepup.core.scheduler import Scheduler
        from stepup.core.startup import rescan_env_vars, reset_interrupted_steps
        from stepup.core.workflow import Workflow

        op = t[0]
        wf = self.wf
        if op == "reset":
            self.cap = int(t[1])
            self.targets, self.tdirs = unhexlist(t[2]), unhexlist(t[3])
            avail = _units(t[4])
            self.env = _pairs(t[5])
            for name in ("V1", "V2"):
                os.environ.pop(name, None)
            os.environ.update(self.env)
            self.res_spec = ",".join(f"{k}:{v}" for k, v in avail.items()) or None
            self.wf, self.sched = await cm.enter_async_context(
                implkit.workflow(targets=self.targets, target_dirs=self.tdirs, defer_cap=self.cap,
                                 resources=self.res_spec, with_scheduler=True))
            async with self.wf.db:
                return "ok - " + self.digest(), None
        if op == "setenv":
            new = _pairs(t[1])
            for name in set(self.env) | set(new):
                os.environ.pop(name, None)
            os.environ.update(new)
            self.env = new
            async with wf.db:
                return "ok - " + self.digest(), None
        if op == "retarget":
            self.targets, self.tdirs = unhexlist(t[1]), unhexlist(t[2])
            async with wf.db:
                return "ok - " + self.digest(), None
        if op == "check_consistency":
            new = Workflow(wf.db, dir_queue=None, defer_cap=self.cap, targets=self.targets, target_dirs=self.tdirs)
            implkit.WATCHDOGS[id(new)] = implkit.WATCHDOGS[id(wf)]
            self.wf = new
            res = await self.coro(lambda: new.initialize())
            self.sched = Scheduler(new, db=wf.db)
            await self.sched.initialize(self.res_spec)
            return res
        if op == "define":
            creator, cmd, wd, inp, env, out, vol, need, shell, safe, res, ovr = t[1:]
            return await self.tx(lambda: wf.define_step(
                self.node(creator), unhexs(cmd), inp_paths=unhexlist(inp), env_deps=unhexlist(env),
                out_paths=unhexlist(out), vol_paths=unhexlist(vol), workdir=unhexs(wd), need=Need[need],
                resources=_units(res) or None, shell=shell == "1", env_overrides=_pairs(ovr) or None,
                _safe=safe == "1"), lambda v: hexlist(sorted(v)))
        if op == "amend":
            step, inp, env, out, vol, conc = t[1:]
            conc_labels = [] if conc == "." else [_key(c)[1] for c in conc.split(",")]

            def fn():
                ids = {wf.find(Step, c).i for c in conc_labels if wf.find(Step, c) is not None}
                return wf.amend_step(self.node(step), inp_paths=unhexlist(inp), env_deps=unhexlist(env),
                                     out_paths=unhexlist(out), vol_paths=unhexlist(vol),
                                     ran_concurrently=lambda p, c: p in ids)

            def res(v):
                un, uf, chk = v
                return (f"{hexlist(sorted(str(x) for x in un))}|{hexlist(sorted(str(x) for x in uf))}|"
                        f"{hexlist(sorted(chk))}")

            return await self.tx(fn, res)
        if op == "static":
            return await self.tx(lambda: wf.declare_static_files(self.node(t[1]), unhexlist(t[2])),
                                 lambda v: hexlist(sorted(v)))
        if op == "tree":
            return await self.tx(lambda: wf.register_static_tree(self.node(t[1]), unhexs(t[2])),
                                 lambda v: hexlist(sorted(v)))
        if op in ("declstatic", "nglob"):
            def globs(tok):
                out = []
                if tok != ".":
                    for e in tok.split(";"):
                        p, ms = e.split(":")
                        ng = NamedGlob(unhexs(p))
                        ng.extend(unhexlist(ms))
                        out.append(ng)
                return out

            if op == "nglob":
                ng = NamedGlob(unhexs(t[2]))
                ng.extend(unhexlist(t[3]))
                return await self.tx(lambda: wf.register_nglob(self.node(t[1]), ng))

            def fn():
                cnode = self.node(t[1])
                chk = {}
                for tr in unhexlist(t[2]):
                    chk.update(wf.register_static_tree(cnode, tr))
                chk.update(wf.declare_static_files(cnode, unhexlist(t[3])))
                for ng in globs(t[4]):
                    wf.register_nglob(cnode, ng)
                return chk

            return await self.tx(fn, lambda v: hexlist(sorted(v)))
        if op == "hashes":
            upd = {}
            for e in t[2].split(","):
                p, tok = e.split("=")
                upd[unhexs(p)] = FileHash.unknown() if tok == "~" else kdump.file_token(int(tok))
            return await self.tx(lambda: wf.update_file_hashes(upd, cause=HashUpdateCause[t[1]]))
        if op == "pop":
            implkit.reset_watchdog(implkit.WATCHDOGS[id(wf)])
            err = None
            try:
                job = await self.sched.pop_next_job()
                if job is None:
                    ans = "ok none"
                else:
                    async with wf.db:
                        st = job.step.get_state()
                    ans = (f"ok {'step:' + common.hexs(job.step.label)}:{'check' if st == StepState.CHECKING else 'run'}:"
                           f"{'runjob' if isinstance(job, RunJob) else 'validate'}")
            except Exception as exc:
                ans = "err " + implkit.classify_exc(exc)
                err = repr(exc)
            async with wf.db:
                return ans + " " + self.digest(), err
        if op == "update_meta":
            def fn():
                self.sched._update_meta_safe()
                self.sched._update_meta_after()
                self.sched._update_meta_ready()
            return await self.tx(fn)
        if op == "reset_rerun":
            return await self.tx(lambda: self.node(t[1]).reset_for_rerun())
        if op == "completed":
            new_hash = None if t[2] == "~" else kdump.step_token(int(t[2]))
            return await self.tx(lambda: self.node(t[1]).mark_completed(new_hash, t[3] == "1"), kdump.b01)
        if op == "set_state":
            return await self.tx(lambda: self.node(t[1]).set_state(StepState[t[2]]))
        if op == "delete_hash":
            return await self.tx(lambda: self.node(t[1]).delete_hash())
        if op == "mark_pending":
            return await self.tx(lambda: wf.mark_step_pending(self.node(t[1])))
        if op == "hold":
            return await self.tx(lambda: self.node(t[1]).hold())
        if op == "release":
            return await self.tx(lambda: self.node(t[1]).release())
        if op == "detach":
            kind, label = _key(t[1])

            def fn():
                from stepup.core.static_tree import StaticTree

                cls = {"file": File, "step": Step, "st": StaticTree}.get(kind)
                (wf.root if kind == "root" else wf.find(cls, label)).detach()

            return await self.tx(fn)
        if op == "revert_optional":
            return await self.coro(lambda: revert_optional_steps(wf, SilentReporter()))
        if op == "delete_detached":
            return await self.tx(lambda: wf.delete_detached())
        if op == "clear_queue":
            wf.to_be_deleted.clear()
            return await self.tx(lambda: None)
        if op == "reset_interrupted":
            return await self.coro(lambda: reset_interrupted_steps(wf, SilentReporter()))
        if op == "rescan_env":
            return await self.coro(lambda: rescan_env_vars(wf, SilentReporter()))
        if op == "reconcile":
            return await self.tx(lambda: wf.reconcile_targets())
        raise ValueError(f"unknown request {t}")


async def replay_lines(lines: list[str]):
    """Answers and error texts of the implementation for the given protocol lines."""
    rp = Replayer()
    async with contextlib.AsyncExitStack() as cm:
        await rp.run(cm, lines)
        async with rp.wf.db:
            dump = kdump.dump_lines(rp.wf)
    return rp.answers, rp.errors, dump


def lines_of(path: str) -> list[str]:
    text = open(path).read()
    if text.lstrip().startswith("{"):
        d = json.loads(text)
        det = d.get("detail", d)
        if "protocol_lines" in det:
            return det["protocol_lines"]
        return det["disagreements"][0]["input"]["protocol_lines"]
    return [ln for ln in text.splitlines() if ln.startswith("k ")]


def main():
    import kcorr

    args = sys.argv[1:]
    path = args[0]
    tail = int(args[args.index("--tail") + 1]) if "--tail" in args else 12
    subs = args[args.index("--dump") + 1:] if "--dump" in args else []
    lines = lines_of(path)
    answers, errors, dump = asyncio.run(replay_lines(lines))
    model = common.run_driver(lines + ["k dump"])
    first = next((i for i, (a, b) in enumerate(zip(answers, model)) if a != b), None)
    print(f"{len(lines)} requests; first model/implementation difference: {first}")
    for i in range(max(0, len(lines) - tail), len(lines)):
        mark = "!=" if answers[i] != model[i] else "=="
        print(f"{i:3d} {kcorr.decode_line(lines[i])[:150]}\n      impl {answers[i]} {mark} model {model[i]}"
              + (f"\n      {errors[i]}" if errors[i] else ""))
    if subs:
        mdump = model[-1].split("|")
        for row in dump:
            if any(s in row for s in subs):
                print("impl ", row)
        for row in mdump:
            if any(s in row for s in subs):
                print("model", row)


if __name__ == "__main__":
    main()
