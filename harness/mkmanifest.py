"""Write /verif/MANIFEST.json from the table below (kept in one place so it stays valid)."""
import json
import sys
from pathlib import Path

VERIF = Path(__file__).resolve().parent.parent
PROPS = [json.loads(l) for l in (VERIF / "properties.jsonl").read_text().splitlines() if l.strip()]

BASE_NOTE = (
    "Trusted: Lean 4.33 kernel; axioms propext/Classical.choice/Quot.sound only (audited each run); the hand-written "
    "Lean model of the modelled code (nothing is verified on the Python text itself); the tie is the regenerated "
    "tables plus the correspondence harness of each run. "
)

CLAIMS = {
    "C09": dict(
        text="Lean theorems (first round): obligations on the regenerated _HASH_TRANSITIONS table (role preserved, "
             "hash/state consistency, functional, action targets); every write to a file row leaves a row satisfying "
             "the state/hash invariant and writes UNDECLARED only on detached nodes; every write of a step state "
             "leaves deferred=>PENDING and holding=>RUNNING; the creator-cycle guard rejects reattaching a node "
             "below itself. The executable kernel model (all requests) is tied to the code by the kernel "
             "correspondence over all scopes; the lift of the invariants to all request sequences is not proved yet: "
             "on generated sequences the full invariant set is evaluated on the real database after every request.",
        note=BASE_NOTE + "The whole K layer is a model (SQL statements, triggers, recursive CTEs modelled by hand). I4 "
             "(SUCCEEDED => outputs BUILT) holds per director transaction and is decided on simulated builds, not here.",
        technique="Lean 4 proof over generated tables and row-level primitives + kernel differential correspondence "
                  "with an SQL-free invariant oracle",
        design="9/C09",
    ),
    "C20": dict(
        text="Lean theorems for all strings: translate/translate_back denote the same file from the root as the "
             "argument from root/HERE/workdir (lexical resolution), results are normalized, canonical and idempotent, "
             "one location gets one label, affixes are kept exactly when present (partial: not for spellings of the "
             "root), apply_affixes rejects exactly the documented cases. Correspondence against posixpath, path.Path "
             "and stepup.core.path on generated paths, working directories and HERE/STEPUP_ROOT values.",
        note=BASE_NOTE + "Lexical resolution on a symlink-free tree is the stated semantics; posixpath/path.Path are "
             "modelled and validated by correspondence. make_path_out, short_path and NUL characters are not modelled.",
        technique="Lean 4 proof on component lists + differential correspondence + realpath oracle on a real tree",
        design="9/C20",
    ),
    "C13": dict(
        text="Lean theorems: the byte string fed to SHA-256 for the input digest is uniquely decodable, so equal "
             "streams imply equal label, shell flag and equal finite maps of inputs/variables/overrides "
             "(inp_stream_injective_partial: for configurations without a tracked variable named "
             "__env_overrides__, the known finding F1, whose witness is the negation theorem); the same for the "
             "output digest with no extra hypothesis since the F2 fix; both streams are invariant under reordering "
             "of the ingredients; FileHash.refreshed reports a change whenever a stat field moved and content, "
             "size or mode differ. Correspondence: sha256(model stream) equals the digest computed by the real "
             "StepHash on generated configurations; refreshed on real files.",
        note=BASE_NOTE + "SHA-256 treated as injective on the strings that occur. JSON/cattrs round trip of stored "
             "hashes is checked by the oracle on generated values only (library code, not modelled). ABA changes "
             "that keep mtime, size, inode and mode are outside the mechanism (stated as a theorem).",
        technique="Lean 4 proof (unique parsing by induction) + digest-level differential correspondence",
        design="9/C13",
    ),
    "C18": dict(
        text="Lean theorems: the LIKE/ESCAPE clause of prefix_clause, the dir_range_upper half-open range and the "
             "substr test are byte-exact prefix tests for all strings; one theorem per call site composes them; the "
             "case-sensitivity flag is regenerated from a live connection. Correspondence runs every call site of the "
             "implementation on adversarial label sets against the model.",
        note=BASE_NOTE + "Modelled, not verified: SQLite LIKE/BINARY collation/substr, Path(p)/'' and str.startswith "
             "(validated against SQLite/Python on generated inputs). File labels never end in '/'.",
        technique="Lean 4 proof over a hand-written model + regenerated table + differential correspondence",
        design="9/C18",
    ),
}

PENDING_REASON = "machinery for this property is not built yet in this round (see DESIGN.md section 12 for the order)"


def main():
    checks, na = [], []
    for p in PROPS:
        pid = p["id"]
        c = CLAIMS.get(pid)
        if c is None:
            na.append({"property_id": pid, "reason": PENDING_REASON})
            continue
        checks.append({
            "property_id": pid,
            "quick_cmd": f"./check {pid} --tier quick",
            "thorough_cmd": f"./check {pid} --tier thorough",
            "evidence_file": f"evidence/{pid}.json",
            "replay_cmd_template": f"./check {pid} --replay {{path}}",
            "engine": "lean-model",
            "level_claimed": {"category": "proof", "text": c["text"], "design_ref": c["design"]},
            "level_note": c["note"],
            "technique": c["technique"],
        })
    manifest = {
        "version": 1,
        "setup_cmd": "./setup.sh",
        "hooks": {
            "guard": "STEPUP_CORE_VERIF",
            "enable": "no source hooks: the harness imports /repo in-process and instruments by monkeypatching; "
                      "checks export STEPUP_CORE_VERIF=1 for future hooks",
            "baseline_off_cmd": "cd /repo && /venv/bin/python -m pytest -ra -q -p no:cacheprovider --timeout=900 "
                                "--continue-on-collection-errors",
            "source_commits": [],
            "add_only": True,
        },
        "engines": [
            {"name": "lean-model", "path": "lean/", "serves_properties": [c["property_id"] for c in checks],
             "kind_free_text": "Lean 4 model (layers P/K/B), property theorems in lean/StepupModel/Props, compiled "
                               "driver; tables regenerated from /repo by harness/gen_tables.py; correspondence "
                               "harness in harness/props/*.py"},
        ],
        "checks": checks,
        "not_applicable": na,
        "notes": "See DESIGN.md. Known findings and fixed defects: known_findings.jsonl.",
    }
    (VERIF / "MANIFEST.json").write_text(json.dumps(manifest, indent=1) + "\n")
    try:
        import jsonschema
        jsonschema.validate(manifest, json.load(open("/root/.vp/MANIFEST.schema.json")))
        print("MANIFEST.json valid;", len(checks), "claimed,", len(na), "not claimed")
    except ImportError:
        print("jsonschema not available; not validated", file=sys.stderr)


if __name__ == "__main__":
    main()
