"""Write /verif/MANIFEST.json from the table below (kept in one place so it stays valid)."""
import json
import sys
from pathlib import Path

VERIF = Path(__file__).resolve().parent.parent
PROPS = [json.loads(l) for l in (VERIF / "properties.jsonl").read_text().splitlines() if l.strip()]

BASE_NOTE = (
    "Trusted: Lean 4.33 kernel; axioms propext/Classical.choice/Quot.sound only (audited each run); the hand-written "
    "Lean model of the modelled code (nothing is verified on the Python text itself); the tie is the regenerated "
    "tables plus the correspondence harness of each run. "
)

CLAIMS = {
    "C08": dict(
        text="Lean theorems on the declaration guards of the kernel model: an unclaimed path can be declared, a repeat "
             "by the same creator in the same role is a no-op, every other declaration of a claimed path is rejected, "
             "and whether two declarations of one path conflict does not depend on which is already in the graph "
             "(file_conflict_symmetric); claims come only from attached nodes; the owning tree is an attached tree "
             "whose label is a prefix of the path; anything declared under a foreign tree is rejected; after every "
             "history of requests every (kind, label) has at most one node, i.e. one declaration per path "
             "(one_declaration_per_path_after_every_history). The global ownership invariants are evaluated on the "
             "real database after every generated request, an accepted define is checked to have recorded the "
             "declared role, owner and resources, and every generated pair of declarations (including names that "
             "differ only in LIKE wildcards) is applied in both orders on fresh workflows (accept/reject, message "
             "text, resulting graph); the pattern and matches that the real glob()/static() send for every spelling of a "
             "pattern (./, sub/../, from a working directory) are applied next to a step that builds a match, in both orders.",
        note=BASE_NOTE + "Message texts are compared on the implementation only. Over histories: every attached file has a role and an existing creator (unconditional); "
             "static trees never nest and own every attached file beneath them for histories whose recycling defines "
             "bring back a consistent subtree (the F21 mechanism is the guard, with three kernel-checked counterexamples "
             "replayed on the real code); products are created by steps and have no second producer. Known findings F15-F19 and F21 (glob versus a product not yet on disk, nested "
             "trees of one creator, four wording differences, three recycle-reattachment classes) are listed in "
             "known_findings.jsonl; F12 was fixed.",
        technique="Lean 4 proof of the guard decision logic + kernel correspondence + both-orders differential oracle",
        design="9/C08",
    ),
    "C10": dict(
        text="Lean theorems: the regenerated truth tables of STEP_DISPATCH_WHERE (640 rows) and "
             "UNAVAILABLE_INPUT_WHERE equal their specifications on the complete domain; a step accepted by the "
             "model of SELECT_NEXT_STEP satisfies every dispatch condition and every step that satisfies them is "
             "accepted; pop_next_job dispatches only eligible steps and answers 'nothing' only when none is "
             "eligible (on refreshed metadata); _update_meta_ready makes the cached _ready equal its definition, "
             "which does not depend on cached columns; the defer cap; the worklist of _update_meta_after: under the "
             "flag discipline the code maintains (an unflagged attached step satisfies its local equation or has a "
             "flagged consumer) the refresh leaves every attached step with cached (_implied_need, _tail_time) equal to "
             "the unique solution of the local equations, equals the from-scratch refresh as a state, changes nothing "
             "else, and terminates in every reachable database (dependencies and creator links are acyclic after every "
             "history); the same for _update_meta_safe (MAX(depth) resolution; the MIN variant has a kernel-checked "
             "counterexample). The three flag disciplines are themselves invariants: _ready unconditionally for every "
             "history, _safe for every history in which only the root defines a step 'safe from the start' (what "
             "initialize_boot does), _implied_need/_tail_time for every history with constant targets (and "
             "reconcile_targets carries it to new targets); the excluded requests have kernel-checked counterexamples "
             "that replay on the real code and are requests the director never issues. Hence after every such history "
             "the cached columns equal their definitions after a refresh, and a dispatched step has, on the graph, every "
             "declared input attached and BUILT/CONFIRMED and every recursive creator RUNNING/SUCCEEDED and not holding. "
             "The disciplines are also sampled on the model state after every generated request and on the real "
             "database by the cache oracle, together with the from-scratch eligibility at every dispatch decision. "
             "Builder side (model of job_loop + HashQueue, every event sequence): the phase ends only when no task runs "
             "and none waits to be retired; a parked loop has its wake event clear and, with a free slot, no job on offer "
             "and no unclaimed queued hash job; the inner loop terminates within njob+4 passes; the wake-setting sites "
             "(_task_done, handle_done_tasks, HashQueue.submit, define_step and release_dispatch handlers) are regenerated "
             "from the source by ast. Composed with the kernel (pop_next_job as the loop's scheduler): a started job was answered "
             "for a step eligible in the refreshed state; a phase that is not draining ends only when no step is eligible in "
             "the kernel state; no lost wake-up under a named proviso whose necessity is a kernel-checked run reproduced on "
             "the real code (a promoted hash job delays a dispatch until the next wake-up).",
        note=BASE_NOTE + "Priority among eligible steps is not part of the property. Phase termination is relative to "
             "'every started command terminates' plus the defer cap. The side conditions of the discipline theorems "
             "(constant targets between reconciliations, no raw detach of an output file, no 'safe' definition below a "
             "step) describe what the director issues; they are not verified on director.py. F14 (stale _safe) and F20 "
             "(stale _implied_need after reset_for_rerun) were found by the oracle and fixed; the model proofs were "
             "done on the repaired code.",
        technique="Lean 4 proof over regenerated SQL truth tables + kernel correspondence + from-scratch scheduling oracle",
        design="9/C10",
    ),
    "C11": dict(
        text="Lean theorems on the model of UPDATE_CHECK_AFTER and dispatch: the implied need is at least the "
             "declared need, an exact target elevates any producer, a directory target spares OPTIONAL steps, need "
             "propagates from every attached consumer to its producers, the threshold rule, only steps above the "
             "threshold are dispatched, a DEFAULT step without elevation is not built under targets; after a refresh "
             "the cached need of an attached step is, in closed form, the maximum of the own needs (declared need, or "
             "TARGET for a producer of a target) of the attached steps it transitively feeds; an unneeded OPTIONAL "
             "step is not dispatched; every dispatched step is, or transitively feeds, a step whose own need exceeds "
             "the threshold. The oracle recomputes the need of every step from its definition on the real database "
             "at every dispatch and metadata refresh (also after restarts with other targets), checks the "
             "selection of revert_optional_steps, and runs the real tui._async_build to compare the targets handed to "
             "the director with the files the user named relative to the invocation directory; directed scenarios: a producer needed only through an "
             "amended output (two known findings), demotion of a PLAN need.",
        note=BASE_NOTE + "The closed form holds under the flag discipline of C10 (a theorem for histories with constant "
             "targets between reconciliations, see C10; sampled otherwise); whole-build statements on simulated builds.",
        technique="Lean 4 proof of the per-step need computation + kernel correspondence + from-scratch need oracle",
        design="9/C11",
    ),
    "C12": dict(
        text="Lean theorems: a step that passes the resource test requires only defined resources and fits next to "
             "what RUNNING steps hold; a step dispatched to run its command has its resources free and is _safe (no "
             "holding creator); release without hold is rejected; leaving RUNNING resets the hold counter; over whole "
             "histories with a fixed resource table the RUNNING steps never hold more than available nor an undefined "
             "resource, provided no step is set RUNNING outside the dispatch protocol and a define that recycles a "
             "still-running step fits the table (both conditions have kernel-checked counterexamples; the second is "
             "the known finding F7, replayed on the real code); after every director history a job that starts a "
             "command belongs to a step all of whose recursive creators are RUNNING/SUCCEEDED and hold nothing (a "
             "hash CHECK may bypass a hold; it starts no command); a kernel-checked counterexample (one_command_per_step_negation) shows that a "
             "RUNNING step re-created by its creator gets a second job while the first runs (known finding, replayed on the real CLI). For the job limit: a model of Builder.job_loop with the "
             "HashQueue (every sequence of scheduler answers, hash submissions/promotions, task endings and exceptions): "
             "running_tasks never exceeds njob, promoted work outside the budget is hashing only, every started job is "
             "accounted for and its completion reported once; the two `<` guards and the absence of other start sites are "
             "regenerated from the source by ast; composed with the kernel, every RUNNING row is the step of a job whose task is "
             "in running_tasks. The oracle checks resource sums of RUNNING steps and "
             "holding creators on the real database after every request, the job limit on the real Builder driven by "
             "event scripts, and job limit, overlap and hold blocks on simulated builds; above the kernel, every API function that takes "
             "resources= is called for real with a captured RPC client (the units must arrive in define_step, hold() must pair "
             "hold/release around what the block declares), and a directed build re-creates a running step with another input "
             "list (known findings resource-limit-exceeded:running-step-recreated, director-error:running-step-recreated).",
        note=BASE_NOTE + "The job-loop model is tied to builder.py/hash_queue.py by running the real classes with a stub "
             "scheduler/executor on the same event scripts; asyncio (tasks, Event, Queue) is trusted. The overlap of "
             "executions in time and hold blocks of whole builds are in addition decided by the oracle on simulated builds "
             "of the real director (logical clock). F7/F9 (recycling a detached RUNNING step) remain in scope of the oracle.",
        technique="Lean 4 proof of the dispatch-time resource/hold decision + kernel correspondence + invariant oracle",
        design="9/C12",
    ),
    "C15": dict(
        text="Lean theorems: every exposed DirectorHandler coroutine mutates the workflow inside at most one "
             "transaction block, calls no mutator outside and never awaits inside (table regenerated by ast); a "
             "rejected kernel request leaves state and configuration unchanged, including the composite "
             "declare_static request failing at any stage; DBSession as a state machine is serialisable for every "
             "interleaving (committed state = transactions left normally, whole, in commit order). Correspondence: "
             "kernel sequences with rejected requests, the real DBSession under generated task schedules, rejected "
             "requests through the real DirectorHandler (database unchanged), and the real RPCServerConnection on a "
             "virtual clock: a call whose peer vanished is either never started or its transaction completes; amend requests whose output directories "
             "cannot be created or whose inputs are directories (fix c938a59; the hash-job failure after the commit is a known finding).",
        note=BASE_NOTE + "SQLite's atomic commit/rollback is trusted. 'Received in full is applied in full' at the "
             "connection level is decided by the applied-after-disconnect oracle shared with C16, not by a theorem.",
        technique="Lean 4 proof (serialisability by simulation relation, ast-regenerated handler table) + differential "
                  "correspondence on DBSession and on rejected kernel requests",
        design="9/C15",
    ),
    "C16": dict(
        text="Lean theorems for all message lists, chunkings and event scripts: frame round trip under any "
             "fragmentation, oversize header is an error, truncation is 'peer gone'; the server connection keeps every "
             "received call in exactly one of in-flight/queued/replied/dropped and replies carry the id they were "
             "received with; client pairing; only flagged procedures are invoked (over the regenerated "
             "DirectorHandler table); failure-class mapping over the regenerated exception table. Three full "
             "statements are false of the code and kept as _partial + _negation with witnesses replayed on the real "
             "code every run (half-closed peer gets no reply, foreign reply id fails the client, unpicklable result "
             "cancels sibling handlers). The oracle also drives the real connection on a virtual clock with peers "
             "that vanish or say goodbye while handlers are in flight, with 33-150 calls completing behind a paused writer, and "
             "the real async client with several concurrent callers (payloads beyond the transport buffer, a caller cancelled "
             "inside drain(): fix 5007b3c).",
        note=BASE_NOTE + "asyncio task scheduling is modelled as nondeterministic events; kernel socket behaviour is "
             "exercised only in the thorough tier (socketpair).",
        technique="Lean 4 proof (decoder induction, connection invariants) + event-script correspondence on the real "
                  "RPCServerConnection / client",
        design="9/C16",
    ),
    "C17": dict(
        text="Lean theorems: incremental update equals rescan and will_change is none iff nothing changed; repeated "
             "names bind equal substrings; the recorded set equals the globbed existing paths accepted by the regex "
             "(full since the two fixes); regenerated obligations that all compile sites pass DOTALL; the language "
             "equalities (regex = glob, anonymous = named) have _partial results and concrete _negation theorems for "
             "four known classes. Correspondence on emitted regex/glob strings, matcher, NamedGlob.glob on real trees; trees with symbolic links "
             "(to files, to directories, dangling), which the model leaves out, are decided on the implementation alone "
             "(scan = glob and accepted, incremental = fresh scan for complete change lists).",
        note=BASE_NOTE + "Python re and glob are modelled for the fragment the compilers emit. Known findings: four "
             "classes where the regex accepts an existing path that glob never returns.",
        technique="Lean 4 proof over a regex AST / glob model + differential correspondence on real directory trees",
        design="9/C17",
    ),
    "C09": dict(
        text="Lean theorems about the executable kernel model (every request the harness drives is a constructor of "
             "`Req`, `KState.exec` is what the correspondence compares): obligations on the regenerated "
             "_HASH_TRANSITIONS table; every write to a file or step row leaves a consistent row; a rejected request "
             "changes nothing; and, for every history of accepted and rejected requests from the empty workflow, under "
             "configurations that may change between requests: states and stored hashes of all file rows are mutually "
             "consistent, dependencies only link files with steps (or static trees with files), there is one node per "
             "(kind, label), and deferred=>PENDING / holding=>RUNNING for histories whose hold requests hit RUNNING steps "
             "(the unguarded statement has a kernel-checked counterexample); a node is detached exactly when it is not "
             "reachable from the root through creator links (the walk of RECURSIVELY_SET_DETACHED is exact, creator "
             "links among attached nodes are well-founded); dependencies are acyclic (the recursive-sinks query is "
             "exact, one check suffices for a batch of input edges). The first group follows from a generic theorem: "
             "any predicate preserved by the primitive writes is an invariant of every history. The creator-cycle "
             "guard rejects reattaching a node below itself; detaching the root is rejected. An UNDECLARED file is detached and has "
             "no creator after every history (I3). Every attached output of a SUCCEEDED step is BUILT or VOLATILE after "
             "every history whose requests satisfy four named side conditions (I4; 20 of 24 request kinds unconditional; "
             "each side condition has a kernel-checked counterexample replayed on the real code). The remaining clause (no "
             "internal error) and all of the above are evaluated by an SQL-free oracle on the real database after every "
             "generated request.",
        note=BASE_NOTE + "The whole K layer is a model (SQL statements, triggers, recursive CTEs modelled by hand). That the "
             "director only issues requests satisfying the side conditions of I4 and of the hold guard is read in the code, "
             "not verified (whole simulated builds, C01/C05, exercise it). "
             "Known: internal ConsistencyError when a static declaration collides with a foreign file under a static "
             "tree that a recycle re-attached (consequence of the C08 finding F21).",
        technique="Lean 4 proof (invariants by induction over request histories, generic in the predicate) + kernel "
                  "differential correspondence with an SQL-free invariant oracle",
        design="9/C09",
    ),
    "C20": dict(
        text="Lean theorems for all strings: translate/translate_back denote the same file from the root as the "
             "argument from root/HERE/workdir (lexical resolution), results are normalized, canonical and idempotent, "
             "one location gets one label, affixes are kept exactly when present (partial: not for spellings of the "
             "root), apply_affixes rejects exactly the documented cases. Correspondence against posixpath, path.Path "
             "and stepup.core.path on generated paths, working directories and HERE/STEPUP_ROOT values; every API function is "
             "called for real with a captured RPC client and what it hands to the director (and back to the step) is compared with "
             "the model and decided on a real directory tree; patterns and matches of glob()/static() are recorded without a "
             "leading ./ (glob_path_trailing_only, since fix f2df9c9); the return value of static() and the arguments file of call() "
             "(fix a9f03d7); ROOT/HERE of the real Executor._run_command.",
        note=BASE_NOTE + "Lexical resolution on a symlink-free tree is the stated semantics; posixpath/path.Path are "
             "modelled and validated by correspondence. make_path_out, short_path and NUL characters are not modelled.",
        technique="Lean 4 proof on component lists + differential correspondence + realpath oracle on a real tree",
        design="9/C20",
    ),
    "C13": dict(
        text="Lean theorems: the byte string fed to SHA-256 for the input digest is uniquely decodable, so equal "
             "streams imply equal label, shell flag and equal finite maps of inputs/variables/overrides "
             "(inp_stream_injective_partial: for configurations without a tracked variable named "
             "__env_overrides__, the known finding F1, whose witness is the negation theorem); the same for the "
             "output digest with no extra hypothesis since the F2 fix; both streams are invariant under reordering "
             "of the ingredients; FileHash.refreshed reports a change whenever a stat field moved and content, "
             "size or mode differ. Correspondence: sha256(model stream) equals the digest computed by the real "
             "StepHash on generated configurations; refreshed on real files, also rewritten right after the bytes were read; the batch "
             "functions compute_inp_hashes / compute_out_hashes on real files (content, size, mode-only, vanished: every changed "
             "path is in new_hashes and reported, no unchanged one is); JSON round-trip of FileHash after histories of saves.",
        note=BASE_NOTE + "SHA-256 treated as injective on the strings that occur. JSON/cattrs round trip of stored "
             "hashes is checked by the oracle on generated values only (library code, not modelled). ABA changes "
             "that keep mtime, size, inode and mode are outside the mechanism (stated as a theorem).",
        technique="Lean 4 proof (unique parsing by induction) + digest-level differential correspondence",
        design="9/C13",
    ),
    "C18": dict(
        text="Lean theorems: the LIKE/ESCAPE clause of prefix_clause, the dir_range_upper half-open range and the "
             "substr test are byte-exact prefix tests for all strings; one theorem per call site composes them; the "
             "case-sensitivity flag is regenerated from a live connection. Correspondence runs every call site of the "
             "implementation on adversarial label sets against the model; the range bounds of every target directory are among the "
             "outputs; the project root as a directory target ('./') selects every label (site_target_dir; fix ce0f3bf).",
        note=BASE_NOTE + "Modelled, not verified: SQLite LIKE/BINARY collation/substr, Path(p)/'' and str.startswith "
             "(validated against SQLite/Python on generated inputs). File labels never end in '/'.",
        technique="Lean 4 proof over a hand-written model + regenerated table + differential correspondence",
        design="9/C18",
    ),
    "C19": dict(
        text="Lean theorems on the model of finalize.report_unbuilt and pending.py: the regenerated ReturnCode bits, "
             "root-kind priorities and statement skeleton; a bit-level iff for DRAINED, PENDING, FAILED and WARNING; "
             "FAILED bit sound at full strength, complete for builds that are clean apart from glob matches, with a "
             "negation theorem for the literal reading 'exactly when a glob matched a built file' (glob violations are "
             "only examined when nothing else is wrong); exit status 0 implies not draining, no FAILED step, every "
             "required step SUCCEEDED, no missing target, no glob violation (also on the kernel KState); the exit number "
             "determines each flag; a rejected target gives FAILED alone; cleanup only after a complete build; "
             "pend_blocker holds exactly one row per pending step; the UNION ALL attribution walk terminates for any "
             "blocker table with its primary key (negation witness without it); every pending step is attributed to "
             "exactly one root or is cyclic, and FILE + RESOURCE + failed + deferred + other + runnable + cyclic = total. The printed report of the real reporter is parsed "
             "and compared with the attribution (known finding summary-counts-overlap: the printed rows are exact transitive counts); more root causes than the report "
             "ranks; whether a requested target is invalid is decided on the final database (fix 78251e1: a target that ends the "
             "phase as a static or volatile file sets FAILED; model Input.invalidTargets), the boot script as a target (fix "
             "f9126e4); a simulated director that raises is a finding.",
        note=BASE_NOTE + "Base relations of the pending analysis (pend_file_block, dead-end files, unsatisfiable resources) "
             "and whether the cause shown is true of the graph are compared against a from-scratch Python reference on "
             "generated leftover graphs; serve()'s exit status is checked on simulated builds. 'DRAINED without FAILED' "
             "(a step ended the phase PENDING after its creator recycled it) is non-zero and not a violation of the text. "
             "INTERNAL/INTERRUPTED exit paths are outside.",
        technique="Lean 4 proof of the report decision logic and of the attribution walk (termination without acyclicity, "
                  "partition, counts) + correspondence on generated leftover graphs + from-scratch reference of the pending "
                  "analysis + exit-status oracle on simulated builds",
        design="9/C19",
    ),
    "C14": dict(
        text="Lean theorems: after any item sequence and any workflow answers the watcher's `updated` and `deleted` sets are "
             "disjoint, duplicate-free and hold exactly the paths whose last relevant item was an update or a deletion "
             "(record_change as a fold; the queued-during-build loop and the watch loop are one fold; DELETED_PARENT adds "
             "exactly the relevant paths under the directory, through C18's site lemma); watcher and restart apply the same "
             "single-file hash updates given complete events and no attached UNCONFIRMED file (partial, with the negation "
             "showing that hypothesis is necessary); the kernel rejects EXTERNAL updates of UNDECLARED/PLANNED/VOLATILE files "
             "(why the watcher must restrict itself to what a restart re-hashes); the glob part extends C17's "
             "update-equals-rescan result. End-to-end equality of outputs, graph and return code is decided by a differential "
             "oracle: watch rebuild versus restart on paired simulated directors over generated edit scripts, with directed rounds (restore an input together with a new "
             "match of a sub-plan's pattern; edits while the declaring plan is detached).",
        note=BASE_NOTE + "inotify runtime behaviour and the translation in change_loop are exercised, not modelled. Incomplete "
             "phases compare return code plus the states of attached nodes, drained phases after a settling rebuild. Four "
             "watcher defects found by this oracle were fixed (see known_findings.jsonl); known: "
             "watch-new-directory-unreported (F8), watch-unwatched-directory-unreported, "
             "watch-differs:change-while-detached, watch-differs:external-update-order.",
        technique="Lean 4 proof of the record_change fold and of watcher/restart hash-application equivalence + correspondence "
                  "against the real Watcher and logged sessions + differential oracle (watch rebuild versus restart) on paired "
                  "simulated directors",
        design="9/C14",
    ),
    "C06": dict(
        text="Lean theorems on the kernel model and on models of the cleanup code: only rows in state VOLATILE, BUILT or "
             "OUTDATED are ever queued for deletion (beforeDelete, deletePass, deleteDetachedBase, deleteDetached, "
             "revertOptional, with their `for` loops), a static (CONFIRMED/MISSING/UNCONFIRMED) or undeclared row never; "
             "detach and setCreator leave file state, hash, key and queue untouched; remove_deletable_files removes a queued "
             "regular output only when its refreshed hash equals the recorded one, volatile paths whatever they contain, "
             "and directories only when empty (model of _prune_empty_dirs); the guard chain of Builder.finalize runs the "
             "cleanup exactly for return code & ~WARNING = 0, no targets, cleaning enabled (regenerated truth table over all "
             "64 return codes and the ast of every call site of the cleanup entry points); stepup clean selects exactly the "
             "outputs under its arguments and skips modified ones unless --unsafe (regenerated SELECT_OUTPUTS truth table); "
             "for every history of kernel requests a file row is in a product state only if an earlier accepted define or "
             "amend declared that path as an output, hence every path the cleanup queues was declared as an output "
             "(cleanup_queues_only_declared_outputs). Directed scenarios on whole simulated builds: a volatile leftover adopted by a "
             "static tree, a static file whose declaration was lost, an optional step added back after a revert, a watch-mode director "
             "whose removal queue must not survive a cleanup pass.",
        note=BASE_NOTE + "That the director only issues the modelled requests, and what happens to the files on disk, is decided "
             "by the oracle on simulated histories (plan edits, user modifications, stray files, targets, --no-clean, "
             "interleaved `stepup clean` runs; the scratch tree is snapshotted around every removal pass). File system "
             "model: regular files and directories only. Changes invisible to FileHash.refreshed are outside (C13).",
        technique="Lean 4 proof over the kernel cleanup functions and models of finalize/clean + regenerated guard and SQL "
                  "truth tables + correspondence on real removal passes + ownership oracle on simulated histories",
        design="9/C06",
    ),
    "C07": dict(
        text="Lean theorems on the kernel model of Trellis.delete_detached / Workflow.delete_detached / "
             "revert_optional_steps: the loop terminates (it always leaves through its break); the result is a fixpoint "
             "(no deletable detached leaf is left); full characterisation of the survivors under unique keys and existing "
             "edge endpoints (a detached node survives iff it is held, through creator-to-product and source-to-sink edges, "
             "by a surviving node); exactly the deleted VOLATILE/BUILT/OUTDATED rows are queued, with their directories; "
             "creators that lost a product have no hash; a negation theorem for detached cycles (F5 witness evaluated on "
             "the model). Correspondence: the cleanup pass of whole simulated builds against the model (surviving nodes, "
             "states, queue); directed scenarios: an orphan that is a named input of a surviving step, a cleanup postponed past a "
             "build with nothing to run.",
        note=BASE_NOTE + "That plan edits leave exactly the dropped steps detached and that unneeded optional steps carry "
             "_implied_need = OPTIONAL at finalize is decided by the oracle on simulated histories (C11 for the cache). "
             "Known findings: detached-cycle-survives (F5), after-kill:orphan-file-forgotten (F6), "
             "stale-volatile-file-after-redeclaration-as-output, orphan-held-indirectly-through-detached-step.",
        technique="Lean 4 proof (termination, fixpoint and survivor characterisation of the cleanup loop) + correspondence "
                  "on real cleanup passes + orphan oracle on simulated edit histories",
        design="9/C07",
    ),
    "C01": dict(
        text="Lean theorems on the kernel model and on the model of the executor's skip decision. (1) Pending "
             "propagation (mark_step_pending / mark_file_outdated / mark_consuming_steps_pending, all graphs): a marked "
             "step ends PENDING unless RUNNING/CHECKING, none of its BUILT outputs stays BUILT, the propagation never "
             "creates a SUCCEEDED step with an unusable input nor a BUILT file behind a non-SUCCEEDED step, stored hashes "
             "are kept; hence from a sound database without busy steps, after the consumers of a changed file (or a step "
             "whose environment changed) are marked, every node downstream along recorded edges, attached or detached, is "
             "invalidated (propagation_complete, propagation_complete_step, rescanEnv_propagation_complete), end to end "
             "for update_file_hashes({p: h}, EXTERNAL) on the regenerated _HASH_TRANSITIONS table "
             "(external_update_complete_partial). (2) try_skip_job records SUCCEEDED without running only if both "
             "recomputed digests equal the stored ones (skip_sound). (3) can_recycle holds only if the four declared lists "
             "match, a partial recycle leaves the step PENDING without env_var rows, a creator that loses a product loses "
             "its hash, and after every accepted define_step the non-dynamic env_var rows of the step are declared "
             "variables (redefinition_declares_env, all three branches); a recycle with changed shell/overrides re-checks "
             "the step; a SUCCEEDED step carries the current values of its tracked variables. The whole-build statement "
             "is decided by the oracle: generated and directed histories (projgen histories with restarts and watch "
             "rebuilds, trees of nested/sibling plans, single-property redefinitions, a read-then-amend project under a "
             "directed schedule, edits of a file / variable / glob match while its declaring sub-plan is detached, a consumer "
             "whose producer's plan is dropped) on the real director code, compared "
             "with a build from scratch (attached graph with states, needs, env vars, globs, relations, content digests; "
             "all output bytes).",
        note=BASE_NOTE + "closed_unique / successful_build_closed (DESIGN T1/T2) are not proved. The case 'an output modified by "
             "the user' of an EXTERNAL update is excluded from external_update_complete_partial (only the producer is marked: "
             "known finding of C14). Stored step digests are derived data, compared only for SUCCEEDED steps of equal graphs; "
             "a PENDING step that keeps its hash and a digest recorded while the creator re-ran are counted, not reported. "
             "Found by this oracle and fixed: stale env_var rows after a partial recycle (7574d5c), env value 1->2->1 "
             "(bd1d0f5), redefinition with only shell/env_overrides changed (2c5d2b4). Known: "
             "reverted-optional-step-keeps-amended-relations, creator-that-lost-a-product-not-rerun "
             "(+ stale-output-after-lost-product).",
        technique="Lean 4 proof (invariant schema over the mark_step_pending recursion, frame lemmas through define_step, "
                  "decision model of the skip check) + kernel correspondence + recorded-call correspondence of the real "
                  "Executor + incremental-versus-scratch differential oracle on simulated builds",
        design="9/C01",
    ),
    "C02": dict(
        text="Lean theorems: normPaths (the model of sorted(set(paths)), compared with Python on generated lists) is strictly "
             "increasing, idempotent and depends on its argument only through its set of members; define_step, "
             "declare_static_files, amend_step and register_nglob give the same state, answer and error for path lists with "
             "the same members; whether two declarations of one path exclude each other does not depend on which is in the "
             "graph already (building on C08), two creators declaring one static file reject each other in both orders, and "
             "the claim check reads the graph only through the attached claim. Schedule independence of whole builds is "
             "decided by the oracle: projgen projects (also invalid and failing ones), racing projects (2-3 concurrent plans "
             "with cross-plan references, two static trees in one request, optional cross-plan conflicts) and amend-timing "
             "projects (post-hoc amend next to unrelated steps, 1 and 3-5 jobs), each built from scratch under 4-6 "
             "configurations plus one resumed-unchanged build: return-code class, canonical graph with digests, all files, "
             "rejected-request texts; also a deferred producer that reproduces its output, conflicting declarations by steps "
             "with working directories, a pattern versus an amended output, a plan that amends the output of its own step.",
        note=BASE_NOTE + "schedule_confluence and decl_commute for whole requests are not proved (the two orders differ in row "
             "order; the equality is one of canonical dumps). Resource limits are varied upwards only; step durations are "
             "represented by the completion order chosen by the schedule. The cosmetic wording differences F16-F19 are "
             "listed under C08; the racing projects avoid them.",
        technique="Lean 4 proof of the normalisation and of single-path conflict symmetry + kernel correspondence + "
                  "multi-schedule differential oracle on simulated builds + raw-versus-normalised request oracle",
        design="9/C02",
    ),
    "C04": dict(
        text="Lean theorems: the guard of _run_hash_job applies a rehash result iff it differs from the record or the cause is "
             "CONFIRMED (so an unchanged rescan touches nothing); update_file_hashes({}) is the identity; rescan_env_vars and "
             "reset_interrupted_steps are identities on a quiescent database; reconcile_targets changes nothing but "
             "_check_after and _update_meta_ready nothing but _ready/_check_ready; composed, the kernel requests of a restart "
             "differ from the identity only in _check_after (noop_restart_identity); with no attached step PENDING "
             "pop_next_job keeps every row's state and attachment and answers 'nothing' (noop_pop_none). Whole builds are "
             "decided by the oracle: after every successful build of generated histories (C01 generator, plan trees with "
             "env overrides and a constrained glob) the build is repeated unchanged as a restart with another job count or "
             "as a watch rebuild (zero commands, identical graph text, identical bytes/mtime/inode), and after source-only "
             "edits every executed step must be justified by an edited file or by another executed step; directed histories: "
             "a flipped shell flag, a variable that a step stopped reading, a step tracking a director-injected variable, a "
             "static pattern with directory matches, an amended input detached by its plan's rerun.",
        note=BASE_NOTE + "noop_rebuild and cone are not proved for whole builds; that FILL_SAFE_UPDATE / UPDATE_CHECK_AFTER "
             "reproduce the stored values on a quiescent database follows from the refresh theorems of C10 under the flag "
             "disciplines. The simulation gives every written file a fresh mtime, so 'rewrites no output' is observed as "
             "unchanged (mtime_ns, inode) and bytes.",
        technique="Lean 4 proof of the startup identities and of the hash-job guard + kernel correspondence + recorded-call "
                  "correspondence of the real _run_hash_job + repeat-the-build and exact-cone oracle on simulated builds",
        design="9/C04",
    ),
    "C03": dict(
        text="Lean theorems. Dispatch (kernel model, on top of C10): pop_next_job dispatches only an eligible step, which is "
             "PENDING, attached, not deferred and _ready; readiness on the graph means every declared input is an attached "
             "BUILT/CONFIRMED file, no input is volatile, no attached amended input is PLANNED/OUTDATED (regenerated "
             "UNAVAILABLE_INPUT_WHERE table); for such a step the sanity checks of _derive_job never raise. Completion (model "
             "B/Exec of Executor.execute_job / _new_run / _compute_full_step_hash / _classify_execution): the completion "
             "carries a step hash only if the command returned 0, no hashing was cancelled, defer was not called, every "
             "input recorded at dispatch had its recorded content on disk before the command and every input that is "
             "BUILT/CONFIRMED at completion has it after the command, and every output exists; a changed input (before or "
             "during the command) completes the step without hash and without deferral, records the change with cause "
             "FAILED only on rows that are still BUILT/CONFIRMED (for which the regenerated transition table has an entry) "
             "and drains; an unavailable or unfresh amended input defers; Step.mark_completed without hash never writes "
             "SUCCEEDED; amend_step accepts an input only if it is attached and CONFIRMED, or BUILT by a producer for which "
             "ran_concurrently is false; carry_on iff nothing is unavailable/unfresh. Freshness (model B/Windows of "
             "record_run_started/stopped with pruning, ran_concurrently, build_completed): for all event sequences with a "
             "non-decreasing clock, if ran_concurrently(p,c) is false while c runs then p has not completed successfully "
             "since c started (ties count as concurrent). Oracle on simulated builds (real director): commands read every "
             "input at start and before exit; fresh builds, rebuilds and restarts after a kill, random schedules with 2-4 "
             "jobs, amends before/after the first read, 0-3 external edits of sources and built files; every SUCCEEDED "
             "step's reads against the content recorded at the end of the build; FAIL + drain + no later dispatch after a "
             "change under a running command; availability of declared inputs at command start; freshness of accepted amends "
             "(also two-element amends and constant rewriters with a partial intermediate file, and a read-then-amend family "
             "under a directed schedule); a file rewritten while it is hashed; the step's side of amend() (the real function with a "
             "captured client: a refusal stops the step and is asked again, the history remembers files not spellings).",
        note=BASE_NOTE + "The two models are tied to the code by correspondence with the real Scheduler methods (clock with "
             "ties) and the real Executor.execute_job, Step.mark_completed and DirectorHandler.amend_step on real files (only "
             "launch_command and the hash thread replaced), including rows changed by another request between hashing and "
             "recording. Limits: ABA content changes between the two hash points are invisible; known findings: "
             "succeeded-on-stale-input:record-updated-during-run and :input-unchecked-at-completion (inputs not "
             "BUILT/CONFIRMED at completion are not checked, and the comparison uses the current records), "
             "command-started-after-input-invalidated:creator-rerun / :producer-repending (a dispatched step is not "
             "re-validated before its command starts), running-step-row-reset (F9). "
             "build-error:hash-update-FAILED-on-MISSING/-on-UNCONFIRMED were found by this oracle and fixed (7a3d8b4).",
        technique="Lean 4 proofs on the kernel model and on models of the executor decision and the run-window bookkeeping + "
                  "correspondence with the real Executor/Scheduler/amend handler + read-versus-record oracle on simulated "
                  "builds with external edits",
        design="9/C03",
    ),
    "C05": dict(
        text="Lean theorems on the kernel model. reset_interrupted_steps: afterwards no step is RUNNING or CHECKING, no "
             "attached step is FAILED, every _holding counter is zero (given C09's row invariant); an attached step that was "
             "RUNNING or FAILED is PENDING and no file at the end of one of its dependency edges is BUILT (unique keys); the "
             "reset creates no BUILT file behind a PENDING step except behind a step that was CHECKING. The failure branch of "
             "mark_completed and reset_for_rerun leave no file created by the step BUILT. before_delete leaves no persistent "
             "trace; negation theorem: the deletion queue does not survive a kill (F6). Oracle on simulated builds (real "
             "director, real SQLite file, WAL bytes restored): for generated projects (optionally after a first build and 1-2 "
             "plan/source mutations, 1 in 5 inside the rebuild phase of a watching director, half with a sub-plan that is "
             "deferred while its steps run) EVERY commit index and every step action boundary of the uninterrupted "
             "successful build is a kill point, 1 in 5 followed by a second kill of the restart; the restart runs with "
             "STEPUP_DEBUG=1; committed-state invariants after every commit; interrupted steps are executed again and none "
             "of their outputs is BUILT before that; return code, every file, orphans, every graph line and the presence of the "
             "recorded outcome of every SUCCEEDED step are compared with the uninterrupted build; hand-written projects "
             "(deferred creator, one and two levels deep, with a late static declaration; three levels of creation) and the "
             "kill before the root node exists are always included.",
        note=BASE_NOTE + "Equality of the completed restart with the uninterrupted build and the absence of consistency "
             "errors at reopening are decided by the oracle, not by a theorem (no B-layer model); _check_consistency's repair "
             "is modelled as a kernel request (C09), its strict form is exercised by the strict restarts. A kill is director "
             "and steps together at a commit or step-action boundary; SQLite atomic commit and WAL recovery are trusted. "
             "Only successful uninterrupted builds are compared; histories whose uninterrupted result depends on the schedule "
             "are compared with the outcomes of four schedules. Known findings: orphan-files-after-restart and "
             "reverted-outputs-left-after-restart (F6), restart-graph-differs:inp_digest-only, running-step-row-reset (F9).",
        technique="Lean 4 proofs on the kernel model (restart reset, failure/rerun bookkeeping, memory-only deletion queue) + "
                  "kernel correspondence + exhaustive kill-point enumeration on simulated builds with strict restarts",
        design="9/C05",
    ),
}

PENDING_REASON = "machinery for this property is not built yet in this round (see DESIGN.md section 12 for the order)"


def main():
    checks, na = [], []
    for p in PROPS:
        pid = p["id"]
        c = CLAIMS.get(pid)
        if c is None:
            na.append({"property_id": pid, "reason": PENDING_REASON})
            continue
        checks.append({
            "property_id": pid,
            "quick_cmd": f"./check {pid} --tier quick",
            "thorough_cmd": f"./check {pid} --tier thorough",
            "evidence_file": f"evidence/{pid}.json",
            "replay_cmd_template": f"./check {pid} --replay {{path}}",
            "engine": "lean-model",
            "level_claimed": {"category": "proof", "text": c["text"], "design_ref": c["design"]},
            "level_note": c["note"],
            "technique": c["technique"],
        })
    manifest = {
        "version": 1,
        "setup_cmd": "./setup.sh",
        "hooks": {
            "guard": "STEPUP_CORE_VERIF",
            "enable": "no source hooks: the harness imports /repo in-process and instruments by monkeypatching; "
                      "checks export STEPUP_CORE_VERIF=1 for future hooks",
            "baseline_off_cmd": "cd /repo && /venv/bin/python -m pytest -ra -q -p no:cacheprovider --timeout=900 "
                                "--continue-on-collection-errors",
            "source_commits": [],
            "add_only": True,
        },
        "engines": [
            {"name": "lean-model", "path": "lean/", "serves_properties": [c["property_id"] for c in checks],
             "kind_free_text": "Lean 4 model (layers P/K/B), property theorems in lean/StepupModel/Props, compiled "
                               "driver; tables regenerated from /repo by harness/gen_tables.py; correspondence "
                               "harness in harness/props/*.py"},
        ],
        "checks": checks,
        "not_applicable": na,
        "notes": "See DESIGN.md. Known findings and fixed defects: known_findings.jsonl.",
    }
    (VERIF / "MANIFEST.json").write_text(json.dumps(manifest, indent=1) + "\n")
    try:
        import jsonschema
        jsonschema.validate(manifest, json.load(open("/root/.vp/MANIFEST.schema.json")))
        print("MANIFEST.json valid;", len(checks), "claimed,", len(na), "not claimed")
    except ImportError:
        print("jsonschema not available; not validated", file=sys.stderr)


if __name__ == "__main__":
    main()
