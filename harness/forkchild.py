"""Targets for the real `stepup.core.run._exec_in_forkserver` (run in a child process)."""

import threading
import time


def leaves_a_thread(linger: float, marker: str, conn):
    """Send the outcome like a finished step, but leave a non-daemon thread behind that keeps working for
    `linger` seconds (the interpreter joins it before the process exits) and then writes `marker`."""
    from stepup.core.run import ChildOutcome

    def work():
        time.sleep(linger)
        with open(marker, "w") as fh:
            fh.write("done")

    threading.Thread(target=work, daemon=False).start()
    conn.send(ChildOutcome(0, "", ""))
    conn.close()
