"""Shared driver of the kernel correspondence for the K-layer properties (DESIGN.md 4.2).

`run(ctx, scopes, observers)` generates request sequences on the real Workflow/Scheduler, pipes
them to the Lean kernel model and reports the first diverging request of each sequence, but only
when its scope is one the property depends on.  Observers are the implementation-side oracles of
the property; they see the real database after every request.
"""

from __future__ import annotations

import collections
import os

import common
import corr_kernel

ALL_SCOPES = {"declarations", "propagation", "scheduler", "completion", "cleanup", "startup"}


def decode_line(line: str) -> str:
    """Human-readable rendering of a protocol line (hex tokens decoded) for replay files."""
    import re

    def dec(m):
        try:
            return bytes.fromhex(m.group(0)).decode()
        except Exception:
            return m.group(0)

    return re.sub(r"\b(?:[0-9a-f]{2}){2,}\b", dec, line)


class WorkerDone(Exception):
    """Raised inside a worker process when its share of the sequences is done."""


def _workers() -> int:
    try:
        return max(1, min(12, int(os.environ.get("VERIF_WORKERS", "") or (os.cpu_count() or 2) - 2)))
    except ValueError:
        return 4


async def _run_sharded(ctx, nseq: int, salt: str):
    """Thorough tier: the sequences are generated and compared in worker processes (one share of the
    index range each: the sequence with index i is the same whatever the number of workers); their
    statistics, disagreements and findings are merged into `ctx`."""
    import asyncio
    import json
    import sys

    n = _workers()
    bounds = [(k * nseq // n, (k + 1) * nseq // n) for k in range(n)]
    here = os.path.dirname(os.path.abspath(__file__))

    async def one(lo, hi):
        env = dict(os.environ, VERIF_KRANGE=f"{salt}:{lo}:{hi}", VERIF_TIER=ctx.tier, VERIF_SEED=str(ctx.seed))
        proc = await asyncio.create_subprocess_exec(sys.executable, os.path.join(here, "kworker.py"), ctx.pid,
                                                    stdout=asyncio.subprocess.PIPE, stderr=asyncio.subprocess.PIPE,
                                                    env=env)
        out, err = await proc.communicate()
        if proc.returncode != 0:
            raise RuntimeError(f"kernel correspondence worker [{lo},{hi}) failed: {err.decode()[-1500:]}")
        return json.loads(out.decode().splitlines()[-1])

    results = await asyncio.gather(*[one(lo, hi) for lo, hi in bounds if hi > lo])
    st = ctx.stats
    for res in results:
        st.evaluations += res["evaluations"]
        st.programs += res["programs"]
        st.disagreements += res["disagreements_n"]
        st.distinct.update(res["distinct"])
        for k, v in res["distribution"].items():
            st.count(k, v)
        for smp in res["samples"]:
            st.sample(smp)
        if not st.rule:
            st.rule = res["rule"]
        ctx.disagreements.extend(res["disagreements"][: max(0, 20 - len(ctx.disagreements))])
        for f in res["findings"]:
            ctx.finding(common.Finding(**f))
        for k, v in res["extra"].items():
            if isinstance(v, (int, float)) and k.startswith("kernel_"):
                ctx.extra[k] = ctx.extra.get(k, 0) + v
    ctx.extra["kernel_workers"] = len(results)
    ctx.extra["kernel_distinct_states"] = len({d for d in st.distinct if isinstance(d, str)})


async def run(ctx, scopes: set[str], observers=(), *, quick=(120, 60), thorough=(6000, 80), exotic_share=0.2,
              salt="kcorr"):
    nseq, nops = quick if ctx.tier == "quick" else thorough
    krange = os.environ.get("VERIF_KRANGE", "")
    lo, hi = 0, nseq
    if krange:
        wsalt, a, b = krange.rsplit(":", 2)
        if wsalt != salt:
            return  # another kernel stream of the same check: not this worker's share
        lo, hi = int(a), int(b)
    elif ctx.tier == "thorough" and nseq >= 200 and _workers() > 1:
        await _run_sharded(ctx, nseq, salt)
        return
    st = ctx.stats
    opcount = collections.Counter()
    errcount = collections.Counter()
    digests = set()
    diverged = 0
    for i in range(lo, hi):
        r = ctx.rng(salt, i)
        exotic = r.random() < exotic_share
        run_ = corr_kernel.KernelRun(r, exotic=exotic)
        run_.observers = [o(ctx, run_) if isinstance(o, type) else o for o in observers]
        import contextlib

        async with contextlib.AsyncExitStack() as cm:
            await run_.generate(cm, nops)
        answers = common.run_driver(run_.lines)
        for op, a in zip(run_.ops, run_.impl):
            opcount[op] += 1
            if a.startswith("err"):
                errcount[f"{op}:{a.split(' ')[1].split(':')[0]}"] += 1
            digests.add(a.rsplit(" ", 1)[-1])
        bad = corr_kernel.compare(run_, answers)
        st.evaluations += len(run_.lines)
        if bad is not None:
            diverged += 1
            scope = corr_kernel.SCOPES.get(run_.ops[bad], "declarations")
            if scope in scopes:
                ctx.disagree(f"kernel:{scope}",
                             {"sequence_seed": [ctx.seed, salt, i], "exotic": exotic, "request_index": bad,
                              "requests": [decode_line(x) for x in run_.lines[: bad + 1]][-12:],
                              "protocol_lines": run_.lines[: bad + 1]},
                             answers[bad], run_.impl[bad])
        if i < 2:
            st.sample({"kernel_sequence": [decode_line(x) for x in run_.lines[:10]],
                       "answers": run_.impl[:10]})
    for d in digests:
        st.distinct.add(d)
    st.programs += hi - lo
    for k, v in opcount.items():
        st.count("kernel-op:" + k, v)
    for k, v in errcount.items():
        st.count("kernel-rejected:" + k, v)
    ctx.extra["kernel_sequences"] = hi - lo
    ctx.extra["kernel_sequences_diverged"] = diverged
    ctx.extra["kernel_distinct_states"] = len(digests)
    if not st.rule:
        st.rule = ("request sequences of ~%d requests over a universe of 10 paths, 9 commands, 2 env vars, 2 resources; "
                   "creators are RUNNING steps 93%% of the time; %d%% of the sequences add malformed requests; a case is "
                   "one request; distinct = distinct canonical database states reached" % (nops, int(exotic_share * 100)))
    if krange:
        raise WorkerDone()
