"""Shared driver of the kernel correspondence for the K-layer properties (DESIGN.md 4.2).

`run(ctx, scopes, observers)` generates request sequences on the real Workflow/Scheduler, pipes
them to the Lean kernel model and reports the first diverging request of each sequence, but only
when its scope is one the property depends on.  Observers are the implementation-side oracles of
the property; they see the real database after every request.
"""

from __future__ import annotations

import collections

import common
import corr_kernel

ALL_SCOPES = {"declarations", "propagation", "scheduler", "completion", "cleanup", "startup"}


def decode_line(line: str) -> str:
    """Human-readable rendering of a protocol line (hex tokens decoded) for replay files."""
    import re

    def dec(m):
        try:
            return bytes.fromhex(m.group(0)).decode()
        except Exception:
            return m.group(0)

    return re.sub(r"\b(?:[0-9a-f]{2}){2,}\b", dec, line)


async def run(ctx, scopes: set[str], observers=(), *, quick=(120, 60), thorough=(2500, 80), exotic_share=0.2,
              salt="kcorr"):
    nseq, nops = quick if ctx.tier == "quick" else thorough
    st = ctx.stats
    opcount = collections.Counter()
    errcount = collections.Counter()
    digests = set()
    diverged = 0
    for i in range(nseq):
        r = ctx.rng(salt, i)
        exotic = r.random() < exotic_share
        run_ = corr_kernel.KernelRun(r, exotic=exotic)
        run_.observers = [o(ctx, run_) if isinstance(o, type) else o for o in observers]
        import contextlib

        async with contextlib.AsyncExitStack() as cm:
            await run_.generate(cm, nops)
        answers = common.run_driver(run_.lines)
        for op, a in zip(run_.ops, run_.impl):
            opcount[op] += 1
            if a.startswith("err"):
                errcount[f"{op}:{a.split(' ')[1].split(':')[0]}"] += 1
            digests.add(a.rsplit(" ", 1)[-1])
        bad = corr_kernel.compare(run_, answers)
        st.evaluations += len(run_.lines)
        if bad is not None:
            diverged += 1
            scope = corr_kernel.SCOPES.get(run_.ops[bad], "declarations")
            if scope in scopes:
                ctx.disagree(f"kernel:{scope}",
                             {"sequence_seed": [ctx.seed, salt, i], "exotic": exotic, "request_index": bad,
                              "requests": [decode_line(x) for x in run_.lines[: bad + 1]][-12:],
                              "protocol_lines": run_.lines[: bad + 1]},
                             answers[bad], run_.impl[bad])
        if i < 2:
            st.sample({"kernel_sequence": [decode_line(x) for x in run_.lines[:10]],
                       "answers": run_.impl[:10]})
    for d in digests:
        st.distinct.add(d)
    st.programs += nseq
    for k, v in opcount.items():
        st.count("kernel-op:" + k, v)
    for k, v in errcount.items():
        st.count("kernel-rejected:" + k, v)
    ctx.extra["kernel_sequences"] = nseq
    ctx.extra["kernel_sequences_diverged"] = diverged
    ctx.extra["kernel_distinct_states"] = len(digests)
    if not st.rule:
        st.rule = ("request sequences of ~%d requests over a universe of 10 paths, 9 commands, 2 env vars, 2 resources; "
                   "creators are RUNNING steps 93%% of the time; %d%% of the sequences add malformed requests; a case is "
                   "one request; distinct = distinct canonical database states reached" % (nops, int(exotic_share * 100)))
