"""Correspondence for C02's `normalise_idem`: every declaration request depends on its path
arguments only through `sorted(set(paths))`.

Two comparisons on generated path lists (duplicates, permutations, names sharing prefixes,
upper/lower case, `%`, `_`, a non-ASCII letter, a supplementary-plane character):
 1. model: `normPaths` of the Lean kernel model (driver request `c02 norm`) equals Python's
    `sorted(set(paths))` (code point order);
 2. implementation (`oracle`, run by the search of C02, no model involved): the real
    `Workflow.define_step`, `declare_static_files` and `amend_step`, called on equal fresh
    workflows once with the raw list (permuted, with duplicates) and once with the normalised
    list, must leave the same canonical database dump and return the same value.
"""

from __future__ import annotations

import common
import implkit
import kdump
from common import hexlist
from implkit import HashUpdateCause, Need, StepState

from stepup.core.step import Step

NAMES = ["a.txt", "A.txt", "a_txt", "a%txt", "b.txt", "d/c.txt", "d/C.txt", "d/sub/g.txt", "d0/f", "d-/f", "é.txt",
         "z\U0001F600.txt", "out/x", "out/y", "out/x.y", "o"]


def gen_list(r, pool, kmax=5):
    k = r.randint(0, kmax)
    base = [r.choice(pool) for _ in range(k)]
    if base and r.random() < 0.6:
        base += [r.choice(base) for _ in range(r.randint(1, 3))]
    r.shuffle(base)
    return base


async def _apply(kind: str, lists: dict):
    """Run one declaration of `kind` with the given lists on a fresh workflow; canonical result."""
    async with implkit.workflow() as wf:
        try:
            async with wf.db:
                wf.define_step(wf.root, "./plan.py", need=Need.PLAN, _safe=True)
                boot = wf.find(Step, "./plan.py")
                boot.set_state(StepState.RUNNING)
                implkit.confirm_static(wf, boot, ["src0", "src1"])
                wf.define_step(boot, "other", inp_paths=["src0"], out_paths=["gen0"])
                other = wf.find(Step, "other")
                other.set_state(StepState.RUNNING)
            async with wf.db:
                if kind == "define":
                    ret = wf.define_step(boot, "cmd", inp_paths=list(lists["inp"]), env_deps=list(lists["env"]),
                                         out_paths=list(lists["out"]), vol_paths=list(lists["vol"]))
                    ret = sorted(ret)
                elif kind == "static":
                    ret = sorted(wf.declare_static_files(boot, list(lists["inp"])))
                else:
                    res = wf.amend_step(other, inp_paths=list(lists["inp"]), env_deps=list(lists["env"]),
                                        out_paths=list(lists["out"]), vol_paths=list(lists["vol"]),
                                        ran_concurrently=lambda a, b: False)
                    ret = repr((sorted(res[0]), sorted(res[1]), sorted(res[2])))
            ans = f"ok {ret}"
        except Exception as exc:
            ans = f"err {implkit.classify_exc(exc)} {exc}"
        async with wf.db:
            dump = kdump.dump_lines(wf)
    return ans, dump


async def run(ctx, quick=400, thorough=8000):
    n = quick if ctx.tier == "quick" else thorough
    st = ctx.stats
    lines, expect, raw = [], [], []
    for i in range(n):
        r = ctx.rng("normcorr", "model", i)
        paths = gen_list(r, NAMES, 7)
        lines.append(f"c02 norm {hexlist(paths)}")
        expect.append(hexlist(sorted(set(paths))))
        raw.append(paths)
    answers = common.run_driver(lines)
    for paths, ans, exp in zip(raw, answers, expect):
        st.case(("norm", tuple(paths)), nontrivial=len(set(paths)) < len(paths) or paths != sorted(paths))
        st.count("norm-model-lists")
        if ans != exp:
            ctx.disagree("normalise:model", {"paths": paths}, ans, exp)


async def oracle(ctx, quick=100, thorough=2000):
    """Implementation only: the same request with raw (permuted, duplicated) and with normalised
    path lists on equal fresh workflows must give the same answer and the same database."""
    from common import Finding

    nimpl = quick if ctx.tier == "quick" else thorough
    st = ctx.stats
    for i in range(nimpl):
        r = ctx.rng("normcorr", "impl", i)
        kind = r.choice(["define", "define", "static", "amend"])
        free = [p for p in NAMES if not p.startswith("out/")]
        lists = {"inp": gen_list(r, free + ["gen0"], 4), "env": gen_list(r, ["V1", "V2", "V3"], 3),
                 "out": gen_list(r, ["out/x", "out/y", "out/x.y", "o"], 3), "vol": gen_list(r, ["out/v", "out/w"], 2)}
        norm = {k: sorted(set(v)) for k, v in lists.items()}
        a = await _apply(kind, lists)
        b = await _apply(kind, norm)
        st.case(("norm-impl", kind, tuple(sorted((k, tuple(v)) for k, v in lists.items()))),
                nontrivial=any(lists[k] != norm[k] for k in lists))
        st.count(f"norm-impl:{kind}:{'accepted' if a[0].startswith('ok') else 'rejected'}")
        if a != b:
            ctx.finding(Finding(ctx.pid, f"request-depends-on-path-list-order:{kind}",
                                f"{kind} with the lists {lists} answers '{a[0][:120]}', with the same lists sorted and "
                                f"without duplicates '{b[0][:120]}'" + ("" if a[0] != b[0] else " (different databases)"),
                                {"request": kind, "raw": lists, "normalised": norm, "raw_answer": a[0],
                                 "normalised_answer": b[0],
                                 "how": "harness/normcorr.py _apply(kind, lists) on a fresh in-memory Workflow"}))
