"""Confirm and register a seeded breaking change (see the task brief, "realistic breakage").

usage: python3 harness/seedtool.py <PID> <n> [--no-suite]
  reads   /tmp/seed/<PID>/out/patch<n>.diff, demo<n>.py | test_demo<n>.py, notes<n>.md
  verifies in a scratch worktree of /repo (removed afterwards):
     demo passes without the patch, fails with it, the pinned baseline still passes with it
  then applies the patch to /repo, runs `./check <PID>` (quick), and undoes the patch
  writes  /verif/seeded/<PID>-<n>/{patch.diff, demo.py, notes.md, meta.json}
"""

from __future__ import annotations

import json
import os
import shutil
import subprocess
import sys
import time

VERIF = os.path.dirname(os.path.dirname(os.path.abspath(__file__)))


def sh(cmd, **kw):
    return subprocess.run(cmd, shell=isinstance(cmd, str), capture_output=True, text=True, **kw)


def apply_patch(tree: str, patch: str):
    """`git apply`, falling back to a 3-way merge and to `patch` with fuzz: the repository may have
    moved (fix commits) since the seed was written."""
    ap = sh(f"git -C {tree} apply {patch}")
    if ap.returncode != 0:
        ap = sh(f"git -C {tree} apply -3 {patch}")
    if ap.returncode != 0:
        sh(f"git -C {tree} checkout -- .")
        ap = sh(f"cd {tree} && patch -p1 --fuzz=3 --no-backup-if-mismatch < {patch}")
    return ap


def run_demo(demo: str, tree: str) -> int:
    env = dict(os.environ, PYTHONPATH=tree, PATH="/venv/bin:" + os.environ["PATH"])
    env.pop("STEPUP_CORE_VERIF", None)
    if os.path.basename(demo).startswith("test_"):
        cmd = ["/venv/bin/python", "-m", "pytest", "-q", "-p", "no:cacheprovider", "-n", "0", demo]
    else:
        cmd = ["/venv/bin/python", demo]
    try:
        return subprocess.run(cmd, cwd=tree, env=env, capture_output=True, text=True, timeout=600).returncode
    except subprocess.TimeoutExpired:
        return 124


def main():
    pid, n = sys.argv[1], sys.argv[2]
    extra_checks = [a for a in sys.argv[3:] if not a.startswith("--")]
    do_suite = "--no-suite" not in sys.argv
    src = f"/tmp/seed/{pid}/out"
    patch = f"{src}/patch{n}.diff"
    demo = next(p for p in (f"{src}/demo{n}.py", f"{src}/test_demo{n}.py") if os.path.exists(p))
    wt = f"/tmp/seedverify-{pid}-{n}"
    sh(f"git -C /repo worktree remove --force {wt}")
    shutil.rmtree(wt, ignore_errors=True)
    assert sh(f"git -C /repo worktree add {wt} HEAD").returncode == 0
    meta = {"property": pid, "variant": int(n), "repo_head": sh("git -C /repo rev-parse --short HEAD").stdout.strip()}
    try:
        meta["demo_without_patch_rc"] = run_demo(demo, wt)
        ap = apply_patch(wt, patch)
        meta["patch_applies"] = ap.returncode == 0
        if ap.returncode != 0:
            print("patch does not apply:", ap.stderr)
        meta["demo_with_patch_rc"] = run_demo(demo, wt)
        if do_suite:
            bc = sh(["python3", f"{VERIF}/harness/baseline_check.py", wt])
            meta["baseline_with_patch"] = bc.stdout.strip().splitlines()[-3:]
            meta["baseline_ok"] = bc.returncode == 0
    finally:
        sh(f"git -C /repo worktree remove --force {wt}")
        shutil.rmtree(wt, ignore_errors=True)
    # our checks against the change: in a scratch worktree with its own copy of the Lean project,
    # so that /repo itself (which other jobs may be reading) is never modified
    results = {}
    wt2 = f"/tmp/seedcheck-{pid}-{n}"
    sh(f"git -C /repo worktree remove --force {wt2}")
    shutil.rmtree(wt2, ignore_errors=True)
    assert sh(f"git -C /repo worktree add {wt2} HEAD").returncode == 0
    try:
        assert apply_patch(wt2, patch).returncode == 0
        shutil.copytree(os.environ.get("VERIF_LEAN_SRC", f"{VERIF}/lean"), f"{wt2}/_lean")
        env = dict(os.environ, VERIF_REPO=wt2, VERIF_LEAN_DIR=f"{wt2}/_lean", VERIF_WORK=f"{wt2}/_work",
                   VERIF_EVIDENCE=f"{wt2}/_evidence")
        for chk in [pid] + extra_checks:
            t0 = time.time()
            r = sh(["./check", chk, "--tier", "quick"], cwd=VERIF, env=env)
            viol = [ln for ln in r.stdout.splitlines() if ln.startswith("VIOLATION")]
            replay = {}
            for ln in viol[:3]:
                path = ln.split("replay=")[1].split(" ")[0]
                try:
                    d = json.load(open(path))
                    replay[os.path.basename(path)] = {"signature": d.get("signature"), "what": d.get("what", "")[:300]}
                except Exception:
                    pass
            results[chk] = {"exit": r.returncode, "violations": [v.replace(wt2, "<scratch>") for v in viol],
                            "replays": replay, "wall_s": round(time.time() - t0, 1)}
    finally:
        sh(f"git -C /repo worktree remove --force {wt2}")
        shutil.rmtree(wt2, ignore_errors=True)
    meta["checks_on_patched_repo"] = results
    meta["caught_by"] = [c for c, r in results.items() if r["exit"] == 1 and r["violations"]]
    meta["what_ran"] = ("demo without/with patch in a scratch worktree; harness/baseline_check.py on the patched worktree; "
                        "./check <id> --tier quick against a scratch worktree of /repo with the patch applied (VERIF_REPO), with its own "
                        "copy of the Lean project")
    notes = f"{src}/notes{n}.md"
    if os.path.exists(notes):
        meta["needs_to_manifest"] = open(notes).read()[:1500]
    confirmed = (meta["demo_without_patch_rc"] == 0 and meta["demo_with_patch_rc"] != 0 and meta["patch_applies"]
                 and meta.get("baseline_ok", True))
    meta["confirmed"] = confirmed
    print(json.dumps({k: v for k, v in meta.items() if k != "needs_to_manifest"}, indent=1))
    if confirmed:
        dst = f"{VERIF}/seeded/{pid}-{n}"
        os.makedirs(dst, exist_ok=True)
        shutil.copy(patch, f"{dst}/patch.diff")
        shutil.copy(demo, f"{dst}/{os.path.basename(demo).replace(n, '', 1)}")
        if os.path.exists(notes):
            shutil.copy(notes, f"{dst}/notes.md")
        json.dump(meta, open(f"{dst}/meta.json", "w"), indent=1)
        print("registered", dst)
    else:
        print("NOT CONFIRMED; not registered")


if __name__ == "__main__":
    main()
