#!/usr/bin/env python3
"""Known finding C12 resource-limit-exceeded:running-step-recreated (real CLI).

A step that is still RUNNING while its creator is executed again, and that the creator
then defines again with *different inputs*, is re-created (`Trellis.create()` reuses the
node and `Step.initialize_row()` inserts a fresh row with state PENDING) although its
command is still running.  From then on the running command no longer counts as a holder
of its resources, and the "new" step is dispatched a second time.

- `plan.py` declares a 1.5 s producer of `late.txt`, the planning script `sub.py`,
  a 2.5 s "gate" step and Y (`token`, needs the gate output).
- `sub.py` declares X (`token`, 4 s) and then amends `late.txt`, which does not exist yet,
  so `sub.py` is deferred while X is running.
- When `late.txt` is built, `sub.py` runs again.  This time it declares X with the extra
  input `late.txt` (the plan looks at the file system), so X cannot be recycled.

Observed with `-j 6 --resources=token:1`: `./work.sh X` is started a second time while its
first command is still running, and Y is started while the second X is running.

Usage: cd <checkout> && PYTHONPATH=<checkout> PATH=/venv/bin:$PATH \
       /venv/bin/python harness/repro/c12_running_step_recreated.py
Exit code 1 when the over-commitment is observed, 0 otherwise.
"""

import os
import subprocess
import sys
import tempfile
import textwrap
from pathlib import Path

PLAN = """\
#!/usr/bin/env python3
from stepup.core.api import plan, static, step

static("work.sh", "sub.py")
step("sleep 1.5; echo late > late.txt", out="late.txt", shell=True)
plan("./sub.py")
step("sleep 2.5; echo open > gate.txt", out="gate.txt", shell=True)
step("./work.sh Y", inp=["work.sh", "gate.txt"], resources="token")
"""

SUB = """\
#!/usr/bin/env python3
import os
import time
from stepup.core.api import amend, step

extra = ["late.txt"] if os.path.exists("late.txt") else []
step("./work.sh X", inp=["work.sh", *extra], resources="token")
time.sleep(0.7)
amend(inp="late.txt")
"""

WORK = """\
#!/usr/bin/env bash
echo "start $1 $(date +%s.%N)" >> "${LOG}"
sleep 4
echo "stop $1 $(date +%s.%N)" >> "${LOG}"
"""


def main() -> int:
    import stepup.core

    print("Using stepup.core from", stepup.core.__file__)
    with tempfile.TemporaryDirectory(prefix="c12-side-") as tmp:
        root = Path(tmp) / "proj"
        root.mkdir()
        log = Path(tmp) / "times.log"
        (root / "plan.py").write_text(PLAN)
        (root / "sub.py").write_text(SUB)
        (root / "work.sh").write_text(WORK)
        for name in "plan.py", "sub.py", "work.sh":
            (root / name).chmod(0o755)
        env = dict(os.environ)
        env["LOG"] = str(log)
        env["STEPUP_ROOT"] = str(root)
        env.pop("STEPUP_BUILD_RESOURCES", None)
        cmd = [
            sys.executable,
            "-m",
            "stepup.core",
            "build",
            "-j",
            "6",
            "--no-progress",
            "--resources=token:1",
        ]
        proc = subprocess.run(
            cmd,
            cwd=root,
            env=env,
            stdin=subprocess.DEVNULL,
            stdout=subprocess.PIPE,
            stderr=subprocess.STDOUT,
            text=True,
            timeout=120,
            check=False,
        )
        print(textwrap.indent(proc.stdout, "    | "))
        print("stepup build exit code:", proc.returncode)
        events = []
        for line in log.read_text().splitlines():
            kind, name, stamp = line.split()
            events.append((float(stamp), 0 if kind == "stop" else 1, kind, name))
        events.sort()
        t0 = events[0][0]
        holders = 0
        worst = 0
        for stamp, _, kind, name in events:
            holders += 1 if kind == "start" else -1
            worst = max(worst, holders)
            print(f"    {stamp - t0:7.3f} s  {kind:5s} {name}   (commands holding 'token': {holders})")
        if worst > 1:
            print(
                f"OVER-COMMITMENT: up to {worst} commands that each require 1 unit of 'token' "
                "ran at the same time with token:1."
            )
            return 1
        print("No over-commitment observed.")
        return 0


if __name__ == "__main__":
    sys.exit(main())
