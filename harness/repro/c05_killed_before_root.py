"""C05 witness (fixed in /repo): a director killed between schema creation and the creation of the root node.
Run: cd /verif/harness && /venv/bin/python repro/c05_killed_before_root.py   (exit 1 = the second start fails)"""
import asyncio, os, sys, tempfile
from stepup.core.sqlite3 import DBSession
from stepup.core.workflow import Workflow
async def main():
    with tempfile.TemporaryDirectory() as d:
        path=os.path.join(d,"graph.db")
        with DBSession.open(path) as db:
            wf=Workflow(db, dir_queue=None)
            schema=[wf.schema()]+[s for nc in wf.node_classes.values() if (s:=nc.schema()) is not None]
            await db.apply_schema(wf.application_id, wf.schema_version, schema)   # ... and the director is killed here
        with DBSession.open(path) as db:
            wf=Workflow(db, dir_queue=None)
            try:
                await wf.initialize()
            except Exception as exc:
                print("second start fails:", type(exc).__name__, exc); return 1
            async with db:
                print("second start ok, root:", wf.root.key())
    return 0
sys.exit(asyncio.run(main()))
