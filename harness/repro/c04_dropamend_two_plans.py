"""C04 witness candidate: a step with an amended input on a static file of another plan is executed
again when that plan and the boot plan are touched in the same rebuild (nothing it consumes changed).
Run: cd /verif/harness && /venv/bin/python repro/c04_dropamend_two_plans.py   (exit 1 = reproduced)
"""
import copy
import os
import sys

sys.path.insert(0, os.path.dirname(os.path.dirname(os.path.abspath(__file__))))
import implkit  # noqa: F401,E402
from simdirector import A, FifoSchedule, Project, SimDirector, plan_file  # noqa: E402

a = [A.step("work", inp=["common.txt"], out=["a/result.txt"])]
b = [A.static("b/d.txt")]
plan = [A.static("common.txt", "a.py", "b.py"), A.step("./a.py", inp=["a.py"], plan=True),
        A.step("./b.py", inp=["b.py"], plan=True)]
scripts = {"./plan.py": plan, "./a.py": a, "./b.py": b,
           "work": [A.read_declared(), A.amend(inp=["b/d.txt"]), A.read("b/d.txt"), A.write_declared()]}
files = {"plan.py": plan_file(plan), "a.py": plan_file(a), "b.py": plan_file(b), "common.txt": "c\n", "b/d.txt": "d\n"}
with SimDirector(Project(scripts=copy.deepcopy(scripts), files=dict(files)), seed=1) as sim:
    r1 = sim.build(njob=1, schedule=FifoSchedule())
    r2 = sim.build(njob=1, schedule=FifoSchedule())
    sim.apply([("write", "plan.py", plan_file(plan, note="touched")), ("write", "b.py", plan_file(b, note="touched"))])
    r3 = sim.build(njob=1, schedule=FifoSchedule())
    print("build 1:", r1.returncode, r1.commands)
    print("build 2:", r2.returncode, r2.commands)
    print("build 3:", r3.returncode, r3.commands)
    for e in r3.events:
        if e[0] in ("NOSKIP", "SKIP", "DROPAMEND", "START", "UPDATED"):
            print("   ", e[0], e[1])
bad = "work" in r3.commands
print("work EXECUTED although nothing it consumes changed" if bad else "work not executed")
sys.exit(1 if bad else 0)
