"""C01 known finding: the producer of an input is dropped, its consumer stays SUCCEEDED.

Build 1: plan.py declares the sub-plan sub.py (step `make`: -> sub/x.txt) and the step `use` (sub/x.txt -> z.txt).
Build 2: plan.py without the sub-plan.  Incremental: exit code 0, `use` SUCCEEDED, z.txt kept.
From scratch: sub/x.txt has no producer, `use` stays PENDING, exit code 16.
Run: cd /verif/harness && /venv/bin/python repro/c01_consumer_of_dropped_producer.py   (exit 1 = reproduced)
"""
import copy
import os
import sys

sys.path.insert(0, os.path.dirname(os.path.dirname(os.path.abspath(__file__))))
import implkit  # noqa: F401,E402
from simdirector import A, Project, SimDirector, plan_file  # noqa: E402

sub = [A.step("make", out=["sub/x.txt"])]
use = A.step("use", inp=["sub/x.txt"], out=["z.txt"])
plan1 = [A.static("sub.py"), A.step("./sub.py", inp=["sub.py"], plan=True), use]
plan2 = [use]
scripts = {"./plan.py": plan1, "./sub.py": sub, "make": [A.write("sub/x.txt", "hello\n")]}
project = Project(scripts=copy.deepcopy(scripts), files={"plan.py": plan_file(plan1), "sub.py": plan_file(sub)})
with SimDirector(copy.deepcopy(project), seed=1) as sim:
    r1 = sim.build(njob=1)
    sim.apply([("script", "./plan.py", plan2, ""), ("write", "plan.py", plan_file(plan2))])
    r2 = sim.build(njob=1)
    print("incremental:", r1.returncode, "->", r2.returncode, sorted(r2.files))
final = Project(scripts={**copy.deepcopy(scripts), "./plan.py": plan2}, files={"plan.py": plan_file(plan2), "sub.py": plan_file(sub)})
with SimDirector(final, seed=2) as sim:
    f = sim.build(njob=1)
    print("scratch:    ", f.returncode, sorted(f.files))
differ = r2.returncode != f.returncode
print("DIFFERENT OUTCOME" if differ else "same outcome")
sys.exit(1 if differ else 0)
