"""Witness of the C19 known finding `summary-counts-overlap:step-behind-several-roots`.

One pending step with two inputs that nothing declares: the end-of-build summary prints
"1 step(s) remained pending." and lists both inputs with "1 step(s)" each.
Run: cd /verif/harness && /venv/bin/python repro/c19_overlap.py
"""
import asyncio
import os
import sys

sys.path.insert(0, os.path.dirname(os.path.dirname(os.path.abspath(__file__))))
import implkit  # noqa: E402
from stepup.core.finalize import report_unbuilt  # noqa: E402
from stepup.core.hash import StepHash  # noqa: E402
from stepup.core.pending import analyze_pending  # noqa: E402


class Rep:
    def __init__(self):
        self.events = []

    async def __call__(self, tag, text="", pages=None):
        self.events.append((tag, text, pages))

    async def warn_about_logs(self):
        pass


async def main():
    async with implkit.workflow(with_scheduler=True) as (wf, sched):
        async with wf.db:
            wf.define_step(wf.root, "./plan.py", need=implkit.Need.PLAN)
            plan = wf.find(implkit.Step, "./plan.py")
            wf.define_step(plan, "./work.py", inp_paths=["a.txt", "b.txt"])
            plan.mark_completed(StepHash(b"ok", None, b"inp_ok", None), False)
            summary = analyze_pending(wf)
        rep = Rep()
        await report_unbuilt(wf, sched, rep)
        print("ntotal:", summary.ntotal)
        print("rows:", [(r.path, r.nblocked) for r in summary.inputs])
        for tag, text, pages in rep.events:
            print(tag, text)
            for title, body in pages or []:
                print("  [" + title + "]")
                print("  " + body.replace("\n", "\n  "))
        buckets = sum(getattr(summary, b).nblocked for b in ("failed", "cyclic", "deferred", "other", "runnable"))
        total_rows = sum(r.nblocked for r in summary.inputs) + sum(r.nblocked for r in summary.resources) + buckets
        print("sum of the printed counts:", total_rows, "headline:", summary.ntotal)
        return 1 if total_rows != summary.ntotal else 0


sys.exit(asyncio.run(main()))
