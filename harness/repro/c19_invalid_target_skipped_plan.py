#!/usr/bin/env python3
"""Side observation on the UNMODIFIED tree (not a seeded variant), property C19.

"The failed bit is set exactly when ... a requested target was invalid."

1. A static file as a target is invalid. When the step that declares it static is skipped
   (recycled with its hash) under a plan.py that runs again, neither the declaration-time
   check nor the startup check (`Workflow.reconcile_targets`) sees it:
   the build exits with 8 (warning "not produced by any step"), failed bit clear.
   The very same command, repeated, exits with 4 (`Invalid build target`).
2. `stepup build plan.py` on a fresh project: the target check fires inside
   `Workflow.initialize_boot`, outside the `try` in `serve()`, so the director dies with a
   traceback and the exit status is 1 (INTERNAL), not 4.

Prints the exit statuses; exits non-zero when the behaviour described above is observed.
"""

import os
import subprocess
import sys
import tempfile

PLAN = """\
#!/usr/bin/env python3
from stepup.core.api import plan, static

static("legacy/plan.py")
plan("./plan.py", workdir="legacy/")
"""

LEGACY_PLAN = """\
#!/usr/bin/env python3
from stepup.core.api import run, static

static("table.csv")
run("wc -l table.csv > count.txt", shell=True, inp="table.csv", out="count.txt")
"""


def _write(path, text, mode=0o644):
    with open(path, "w") as fh:
        fh.write(text)
    os.chmod(path, mode)


def _build(tmp, *args):
    env = dict(os.environ)
    env["STEPUP_ROOT"] = tmp
    for name in list(env):
        if name.startswith("STEPUP_BUILD_") or name == "STEPUP_DEBUG":
            env.pop(name)
    env["COLUMNS"] = "120"
    proc = subprocess.run(
        [sys.executable, "-m", "stepup.core", "build", "-j", "1", "--no-progress", *args],
        cwd=tmp, env=env, stdin=subprocess.DEVNULL, capture_output=True, text=True,
        timeout=110, check=False,
    )
    for line in proc.stdout.splitlines():
        if "WARNING" in line or "ERROR" in line or "GraphError" in line:
            print("    | " + line)
    return proc.returncode


def main():
    with tempfile.TemporaryDirectory(prefix="c19-side-") as tmp:
        os.mkdir(os.path.join(tmp, "legacy"))
        _write(os.path.join(tmp, "plan.py"), PLAN, 0o755)
        _write(os.path.join(tmp, "legacy", "plan.py"), LEGACY_PLAN, 0o755)
        _write(os.path.join(tmp, "legacy", "table.csv"), "x,y,z\n")
        rc1 = _build(tmp)
        print(f"build 1 (no target): exit {rc1}")
        with open(os.path.join(tmp, "plan.py"), "a") as fh:
            fh.write("# any edit\n")
        rc2 = _build(tmp, "legacy/table.csv")
        print(f"build 2 (plan.py edited, target legacy/table.csv is static): exit {rc2}")
        rc3 = _build(tmp, "legacy/table.csv")
        print(f"build 3 (same command again): exit {rc3}")
    with tempfile.TemporaryDirectory(prefix="c19-side-") as tmp:
        _write(os.path.join(tmp, "plan.py"), "#!/usr/bin/env python3\n", 0o755)
        rc4 = _build(tmp, "plan.py")
        print(f"fresh project, target plan.py: exit {rc4}")
    observed = (rc2 & 4) == 0 or rc4 != 4
    print("invalid target without failed bit: " + ("OBSERVED" if observed else "not observed"))
    sys.exit(1 if observed else 0)


if __name__ == "__main__":
    main()
