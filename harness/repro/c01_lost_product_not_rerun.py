#!/usr/bin/env python3
"""C01 finding `creator-that-lost-a-product-not-rerun`: plans root -> p0 -> p1. p1 declares two
static files, one of them (b.txt) consumed by a step of the root plan.  Drop p0 from the root
plan: the subtree is detached; cleaning deletes the unused a.txt node, so its creator ./p1.py loses
a product and `after_lost_product` deletes its hash ("without a hash, a recycled step always runs
again"), but ./p1.py survives (b.txt is held by the consumer) and stays SUCCEEDED.  Re-add p0
unchanged: ./p0.py is recycled and SKIPPED, its subtree is re-attached as it is, ./p1.py is
SUCCEEDED (only PENDING steps are dispatched) and never runs again: a.txt stays undeclared.
Run: /venv/bin/python c01_lost_product_not_rerun.py [repo_root]   (exit 1 = reproduced)"""
import os, sys
if len(sys.argv) > 1:
    os.environ["VERIF_REPO"] = sys.argv[1]
sys.path.insert(0, "/verif/harness")
import buildkit
from simdirector import A, Project, SimDirector, plan_file

P1 = [A.static("a.txt", "b.txt")]
P0 = [A.static("p1.py"), A.step("./p1.py", inp=["p1.py"], plan=True)]
def root(with_p0):
    plan = [A.static("p0.py")] if with_p0 else []
    if with_p0:
        plan.append(A.step("./p0.py", inp=["p0.py"], plan=True))
    plan.append(A.step("use b", inp=["b.txt"], out=["o.txt"]))
    return plan
def project(with_p0):
    return Project(scripts={"./plan.py": root(with_p0), "./p0.py": P0, "./p1.py": P1},
                   files={"a.txt": "A\n", "b.txt": "B\n", "p0.py": plan_file(P0), "p1.py": plan_file(P1)})
with SimDirector(project(True), seed=1) as sim:
    r1 = sim.build()
    sim.apply([("script", "./plan.py", root(False), "plan.py")]); r2 = sim.build()   # fails to build `use b`: fine
    sim.apply([("script", "./plan.py", root(True), "plan.py")]); r3 = sim.build()
with SimDirector(project(True), seed=1) as sim:
    fresh = sim.build()
print("commands:", r1.commands, r2.commands, r3.commands, "| ok:", r1.ok, r2.ok, r3.ok, fresh.ok)
a, b = buildkit.active_view(r3.graph_canon), buildkit.active_view(fresh.graph_canon)
for line in buildkit.diff_lines(a, b, 10):
    print("  ", line)
print("DEFECT REPRODUCED" if a != b else "not reproduced")
sys.exit(1 if a != b else 0)
