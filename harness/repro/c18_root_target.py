#!/usr/bin/env python3
"""Side observation (unmodified tree): the project root as a directory target selects nothing.

`stepup build ./` is normalized to the directory target `./`, whose label range is
`["./", ".0")`. Labels of files inside the project carry no `./` prefix,
so no stored path falls in that range, although every output lies under the project root.
`stepup build out/` in the same project does build `out/a.txt`.

Usage: cd <checkout> && PYTHONPATH=<checkout> PATH=/venv/bin:$PATH /venv/bin/python side_root_target.py
Exit status 0 when `./` builds both outputs, 1 when it builds nothing (the defect).
"""

import os
import subprocess
import sys
import tempfile

PLAN = """\
#!/usr/bin/env python3
from stepup.core.api import static, step

static("input.txt")
step("cp input.txt out/a.txt", inp=["input.txt"], out=["out/a.txt"])
step("cp input.txt b.txt", inp=["input.txt"], out=["b.txt"])
"""


def build(tmp, target):
    env = os.environ.copy()
    env["STEPUP_ROOT"] = tmp
    cp = subprocess.run(
        [sys.executable, "-m", "stepup.core", "build", "-j", "1", target],
        cwd=tmp, env=env, stdin=subprocess.DEVNULL, capture_output=True, text=True,
        timeout=100, check=False,
    )
    print(f"$ stepup build -j 1 {target}   (exit {cp.returncode})")
    print("".join("    | " + line + "\n" for line in cp.stdout.splitlines()))
    return cp


def main():
    with tempfile.TemporaryDirectory(prefix="c18-side-") as tmp:
        with open(os.path.join(tmp, "plan.py"), "w") as fh:
            fh.write(PLAN)
        os.chmod(os.path.join(tmp, "plan.py"), 0o755)
        with open(os.path.join(tmp, "input.txt"), "w") as fh:
            fh.write("hi\n")
        os.mkdir(os.path.join(tmp, "out"))
        build(tmp, "./")
        built = [p for p in ("out/a.txt", "b.txt") if os.path.exists(os.path.join(tmp, p))]
        print("built with target ./ :", built)
        build(tmp, "out/")
        built2 = [p for p in ("out/a.txt", "b.txt") if os.path.exists(os.path.join(tmp, p))]
        print("built after target out/ :", built2)
    return 0 if built == ["out/a.txt", "b.txt"] else 1


if __name__ == "__main__":
    sys.exit(main())
