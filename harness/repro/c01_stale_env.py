#!/usr/bin/env python3
"""C01 finding `stale-env-dependency`: a step redefined without an environment variable keeps
depending on it (Trellis.create's partial-recycle branch keeps the env_var rows; define_step only
INSERT-OR-REPLACEs the declared names).  Run: /venv/bin/python c01_stale_env.py [repo_root]"""
import os, sys
if len(sys.argv) > 1:
    os.environ["VERIF_REPO"] = sys.argv[1]
sys.path.insert(0, "/verif/harness")
from simdirector import A, Project, SimDirector

def project(env):
    return Project(scripts={"./plan.py": [A.static("a.txt"),
                                          A.step("work", inp=["a.txt"], out=["o.txt"], env=env)]},
                   files={"a.txt": "A\n"}, env={"SIM_B": "0"})

with SimDirector(project(["SIM_B"]), seed=1) as sim:
    r1 = sim.build()
    new = project([])
    sim.apply([("script", "./plan.py", new.scripts["./plan.py"], "plan.py")])
    r2 = sim.build()
    sim.setenv("SIM_B", "1")
    r3 = sim.build()
with SimDirector(project([]), seed=1) as sim:
    fresh = sim.build()
line = [l.strip() for l in r2.graph_canon.split("\n") if "using_env" in l]
print("incremental: ok=%s commands=%s using_env lines=%s" % (r2.ok, r2.commands, line))
print("from scratch: using_env lines=%s" % [l.strip() for l in fresh.graph_canon.split("\n") if "using_env" in l])
print("o.txt equal to from-scratch:", r2.files["o.txt"] == fresh.files["o.txt"])
print("after SIM_B changed (undeclared now), commands:", r3.commands)
bad = bool(line) or r2.files["o.txt"] != fresh.files["o.txt"] or "work" in r3.commands
print("DEFECT REPRODUCED" if bad else "not reproduced")
sys.exit(1 if bad else 0)
