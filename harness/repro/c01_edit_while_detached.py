"""C01 witness candidate: a static input is edited while the sub-plan that declares it is detached.

Build 1: plan.py declares the sub-plan sub.py; sub.py declares static sub/in.txt and the step `copy` (sub/in.txt -> sub/out.txt).
Build 2: plan.py without sub.py, plus a failing step (the build fails, so the cleanup is skipped and the detached
         nodes of the sub-plan survive).
Edit:    sub/in.txt changes.
Build 3: plan.py as in build 1.  A build from scratch of the same sources writes sub/out.txt from the new input.
Run: cd /verif/harness && /venv/bin/python repro/c01_edit_while_detached.py   (exit 1 = stale output reproduced)
"""
import copy
import os
import sys

sys.path.insert(0, os.path.dirname(os.path.dirname(os.path.abspath(__file__))))
import implkit  # noqa: F401,E402
from simdirector import A, Project, SimDirector, plan_file  # noqa: E402

sub = [A.static("sub/in.txt"), A.step("copy", inp=["sub/in.txt"], out=["sub/out.txt"])]
plan1 = [A.static("sub.py"), A.step("./sub.py", inp=["sub.py"], plan=True)]
plan2 = [A.step("boom", out=["boom.txt"])]
scripts = {"./plan.py": plan1, "./sub.py": sub, "boom": [A.exit(1)]}
files = {"plan.py": plan_file(plan1), "sub.py": plan_file(sub), "sub/in.txt": "old\n"}
project = Project(scripts=copy.deepcopy(scripts), files=dict(files))

with SimDirector(copy.deepcopy(project), seed=1) as sim:
    r1 = sim.build(njob=1)
    print("build 1:", r1.status, r1.returncode, r1.files.get("sub/out.txt"))
    sim.apply([("script", "./plan.py", plan2, ""), ("write", "plan.py", plan_file(plan2))])
    r2 = sim.build(njob=1)
    print("build 2:", r2.status, r2.returncode)
    sim.apply([("write", "sub/in.txt", "new\n")])
    sim.apply([("script", "./plan.py", plan1, ""), ("write", "plan.py", plan_file(plan1))])
    r3 = sim.build(njob=1)
    print("build 3:", r3.status, r3.returncode, r3.files.get("sub/out.txt"), [x.label for x in r3.runs])
final = Project(scripts=copy.deepcopy(scripts), files={**files, "sub/in.txt": "new\n"})
with SimDirector(final, seed=2) as sim:
    f = sim.build(njob=1)
    print("scratch:", f.status, f.returncode, f.files.get("sub/out.txt"))
stale = r3.files.get("sub/out.txt") != f.files.get("sub/out.txt")
print("STALE OUTPUT" if stale else "outputs agree")
sys.exit(1 if stale else 0)
