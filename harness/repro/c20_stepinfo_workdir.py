#!/usr/bin/env python3
"""Side observation on the UNMODIFIED tree: `StepInfo.workdir` is not in the frame of the step.

`step()` (and `run()`, `plan()`, `call()`, ...) returns `StepInfo(command, inp, env, out, vol, workdir)`.
`inp`, `out` and `vol` are handed back relative to the working directory of the NEW step,
but `workdir` is handed back as `translate(workdir)`, i.e. relative to the project root,
not relative to the working directory of the calling step that receives the object.
`get_info()` does the same: `inp`/`out`/`vol` are translated back, `workdir` is not.
A caller in `sub/` that does `info = run(..., workdir="w")` and then opens
`info.workdir / info.out[0]` looks at `sub/sub/w/...`.

Usage: cd <checkout> && PYTHONPATH=<checkout> /venv/bin/python side_observation7.py
Exit code 1 when `workdir` does not designate the step's directory from the caller's cwd.
"""

import contextlib
import os
import sys
import tempfile

import stepup.core.api as api
from stepup.core.rpc import DummySyncRPCClient


class Client(DummySyncRPCClient):
    def __call__(self, name, /, *args, _rpc_timeout=None, **kwargs):
        return True


def main() -> int:
    with tempfile.TemporaryDirectory() as tmp:
        root = os.path.realpath(tmp)
        os.makedirs(os.path.join(root, "sub/w"))
        os.environ.update(STEPUP_ROOT=root, STEPUP_JOB_I="0", HERE="sub", ROOT="..")
        api._get_cached_rpc_client = lambda: Client()
        with contextlib.chdir(os.path.join(root, "sub")):
            info = api.step("echo hi > out.txt", out="out.txt", workdir="w")
            print("caller cwd     : sub/")
            print("declared       : workdir='w', out='out.txt'  (the file is sub/w/out.txt)")
            print("StepInfo.workdir:", info.workdir, " StepInfo.out:", info.out)
            seen = os.path.relpath(os.path.realpath(info.workdir / info.out[0]), root)
            print("workdir/out[0] seen from the caller:", seen)
            return 0 if seen == "sub/w/out.txt" else 1


if __name__ == "__main__":
    sys.exit(main())
