#!/usr/bin/env python3
"""C01 finding `reverted-optional-step-keeps-amended-relations`: an optional step that ran in an
earlier build and is no longer needed is reverted to PENDING by `revert_optional_steps`, but keeps
the inputs and outputs it amended (and its step hash) as active relations; a build from scratch
has none of them.  Run: /venv/bin/python c01_reverted_optional.py [repo_root]"""
import os, sys
if len(sys.argv) > 1:
    os.environ["VERIF_REPO"] = sys.argv[1]
sys.path.insert(0, "/verif/harness")
import buildkit
from simdirector import A, Project, SimDirector

OPT = [A.read_declared(), A.amend(inp=["b.txt"], out=["extra.txt"]), A.read("b.txt"), A.write_declared()]

def project(with_user):
    plan = [A.static("a.txt", "b.txt"),
            A.step("opt -s1", inp=["a.txt"], out=["o1.txt"], optional=True)]
    if with_user:
        plan.append(A.step("use", inp=["o1.txt"], out=["o2.txt"]))
    return Project(scripts={"./plan.py": plan, "opt -s1": OPT}, files={"a.txt": "A\n", "b.txt": "B\n"})

with SimDirector(project(True), seed=1) as sim:
    r1 = sim.build()          # `use` needs o1.txt, so the optional step runs and amends b.txt / extra.txt
    new = project(False)
    sim.apply([("script", "./plan.py", new.scripts["./plan.py"], "plan.py")])
    r2 = sim.build()          # `use` dropped: `opt` reverted to PENDING
with SimDirector(project(False), seed=1) as sim:
    fresh = sim.build()
a, b = buildkit.active_view(r2.graph_canon), buildkit.active_view(fresh.graph_canon)
print("both builds ok:", r2.ok, fresh.ok)
for line in buildkit.diff_lines(a, b, 20):
    print("  ", line)
print("DEFECT REPRODUCED" if a != b else "not reproduced")
sys.exit(1 if a != b else 0)
