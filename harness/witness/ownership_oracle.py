import asyncio, contextlib, sys
sys.path.insert(0, "/verif/harness")
import kreplay, koracles

async def main(path):
    lines = kreplay.lines_of(path)
    rp = kreplay.Replayer()
    async with contextlib.AsyncExitStack() as cm:
        # the ownership oracle (C08) on the real database before the last request, then after it
        await rp.run(cm, lines[:-1])
        async with rp.wf.db:
            before = koracles.ownership_invariants(koracles.Snapshot(rp.wf))
        await rp.run(cm, lines[-1:])
        async with rp.wf.db:
            after = koracles.ownership_invariants(koracles.Snapshot(rp.wf))
    print(path.split("/")[-1], "| last answer:", rp.answers[-1].split(" ")[:2], "| before:", before, "| after:", after)

asyncio.run(main(sys.argv[1]))
