"""A watched directory is renamed and a file inside it is written before the director has handled
the rename: inotify reports the write through the old watch, i.e. under the OLD path. The watcher
ends with the old path in `updated` (last item wins) although it no longer exists; the glob keeps
its match and the plan is not re-run. A restart globs afresh."""
import sys, copy
sys.path.insert(0, "/verif/harness")
from simdirector import A, Project, SimDirector, FifoSchedule

plan = [A.foreach("g/${*n}.in", [A.step("conv ${n}", inp=["${path}"], out=["out/g_${n}.o"])])]
project = Project(scripts={"./plan.py": plan}, files={"g/x0.in": "x\n"}, env={})
res = []
for watch in (True, False):
    with SimDirector(copy.deepcopy(project), seed=1) as sim:
        r = sim.build(watch=watch, schedule=FifoSchedule(), keep_going=True)
        edits = [("move", "g", "g_old"), ("write", "g_old/x0.in", "x edited\n")]
        if watch:
            r = sim.watch_rebuild(edits, schedule=FifoSchedule())
        else:
            sim.apply(edits); r = sim.build(schedule=FifoSchedule(), keep_going=True)
        print("watch  " if watch else "restart", r.returncode, "ran", r.commands, r.tags("UPDATED", "DELETED"))
        res.append(r)
print("same:", res[0].returncode == res[1].returncode and res[0].files == res[1].files and res[0].graph_canon == res[1].graph_canon)
