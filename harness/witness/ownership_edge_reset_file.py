"""`reset_for_rerun` addressed to a FILE on the real Workflow (the kernel protocol cannot address a file there: kreplay
resolves the operand as a Step).  Prefix: plan RUNNING with the amended (dynamic) PLANNED output o
(Lemmas/OwnershipEdgeWitness.lean).  1. the call as an API user can write it: `wf.find(File, "o").reset_for_rerun()`;
2. the forced call of the Step method on the File object, `Step.reset_for_rerun(file)`, to see what the SQL of the
implementation would do; 3. the director's form, `reset_for_rerun` of the plan.  Each on a fresh database, with the C08
ownership oracle (clause O5: producers == [creator]) before and after."""
import asyncio, contextlib, faulthandler, sys
faulthandler.dump_traceback_later(120, exit=True)
sys.path.insert(0, "/verif/harness")
import kreplay, koracles
from stepup.core.file import File
from stepup.core.step import Step

P = "2e2f706c616e2e7079"
PREFIX = ["k reset 100 . . . .", f"k define root:- {P} 2e . . . . PLAN 0 1 . .", f"k pop step:{P}",
          f"k amend step:{P} . . 6f . ."]

def edges(wf):
    return sorted(wf.db.execute(
        "SELECT s.kind || ':' || s.label, t.kind || ':' || t.label FROM dependency "
        "JOIN node s ON s.i = source JOIN node t ON t.i = sink"))

async def one(name, call):
    rp = kreplay.Replayer()
    async with contextlib.AsyncExitStack() as cm:
        await rp.run(cm, PREFIX)
        wf = rp.wf
        async with wf.db:
            before = koracles.ownership_invariants(koracles.Snapshot(wf))
        try:
            async with wf.db:
                call(wf)
            ans = "accepted"
        except Exception as exc:  # noqa: BLE001
            ans = f"rejected: {type(exc).__name__}: {exc}"
        async with wf.db:
            after = koracles.ownership_invariants(koracles.Snapshot(wf))
            o = wf.find(File, "o")
            row = None if o is None else (o.get_state().name, wf.db.execute(
                "SELECT detached, creator IS NOT NULL FROM node WHERE i = ?", (o.i,)).fetchone())
            es = edges(wf)
    print(name, "|", ans, "| before:", before, "| after:", after, "| o:", row, "| edges:", es)

asyncio.run(one("File.reset_for_rerun()", lambda wf: wf.find(File, "o").reset_for_rerun()))
asyncio.run(one("Step.reset_for_rerun(file o)", lambda wf: Step.reset_for_rerun(wf.find(File, "o"))))
asyncio.run(one("Step.reset_for_rerun(plan)", lambda wf: wf.find(Step, "./plan.py").reset_for_rerun()))
