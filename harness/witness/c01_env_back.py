#!/usr/bin/env python3
"""C01: a tracked environment variable changed 1 -> 2 -> 1 over three restarts leaves the output
built with 2: the value recorded in `env_var` is only written by define_step/amend_step, not when
the step reruns, so the third restart compares 1 (recorded at definition) with 1 (current).
Run: /venv/bin/python c01_env_back.py [repo_root]   (exit 1 = defect reproduced)"""
import os, sys
if len(sys.argv) > 1:
    os.environ["VERIF_REPO"] = sys.argv[1]
sys.path.insert(0, "/verif/harness")
from simdirector import A, Project, SimDirector

project = Project(scripts={"./plan.py": [A.static("a.txt"), A.step("work", inp=["a.txt"], out=["o.txt"], env=["SIM_A"])]},
                  files={"a.txt": "A\n"}, env={"SIM_A": "1"})
with SimDirector(project, seed=1) as sim:
    r1 = sim.build()
    sim.setenv("SIM_A", "2"); r2 = sim.build()
    sim.setenv("SIM_A", "1"); r3 = sim.build()
with SimDirector(project, seed=1) as sim:
    fresh = sim.build()
print("commands:", r1.commands, r2.commands, r3.commands)
print("final o.txt:", r3.files["o.txt"].decode().splitlines()[-1], "| from scratch:", fresh.files["o.txt"].decode().splitlines()[-1])
bad = r3.files["o.txt"] != fresh.files["o.txt"]
print("DEFECT REPRODUCED" if bad else "not reproduced")
sys.exit(1 if bad else 0)
