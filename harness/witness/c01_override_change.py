#!/usr/bin/env python3
"""C01: a step redefined with only `env_overrides` (or `shell`) changed is fully recycled
(Step.can_recycle compares paths and env names only; after_recycle stores the new overrides but
keeps state and hash), so it stays SUCCEEDED and is never rerun although its environment changed.
Run: /venv/bin/python c01_override_change.py [repo_root]   (exit 1 = defect reproduced)"""
import os, sys
if len(sys.argv) > 1:
    os.environ["VERIF_REPO"] = sys.argv[1]
sys.path.insert(0, "/verif/harness")
from simdirector import A, Project, SimDirector

SCRIPT = [A.read_declared(), A.getenv("OVR"), A.write_declared()]
def project(value):
    # `work -e` has no input (a generator): re-running the plan re-confirms the plan's static files,
    # which makes their (transitive) consumers pending with their hash, and the hash check then sees
    # the new overrides; a step without inputs is never looked at again.
    return Project(scripts={"./plan.py": [A.static("a.txt"),
                                          A.step("work -e", out=["o.txt"], env_overrides={"OVR": value})],
                            "work -e": SCRIPT}, files={"a.txt": "A\n"})
with SimDirector(project("one"), seed=1) as sim:
    r1 = sim.build()
    sim.apply([("script", "./plan.py", project("two").scripts["./plan.py"], "plan.py")])
    r2 = sim.build()
with SimDirector(project("two"), seed=1) as sim:
    fresh = sim.build()
print("commands:", r1.commands, r2.commands)
print("final o.txt:", r2.files["o.txt"].decode().splitlines()[-1], "| from scratch:", fresh.files["o.txt"].decode().splitlines()[-1])
bad = r2.files["o.txt"] != fresh.files["o.txt"]
print("DEFECT REPRODUCED" if bad else "not reproduced")
sys.exit(1 if bad else 0)
