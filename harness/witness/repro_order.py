"""update_file_hashes(EXTERNAL) is order dependent: a tampered BUILT output does not make its
consumers pending, a changed input of its producer does (through mark_file_outdated)."""
import sys, asyncio
sys.path.insert(0, "/verif/harness")
import implkit
from implkit import HashUpdateCause, StepState, Step, File, FileHash
from stepup.core.hash import StepHash

async def scenario(order):
    async with implkit.workflow(with_scheduler=True) as (wf, sched):
        async with wf.db:
            boot = wf.define_step(wf.root, "./plan.py", need=implkit.Need.PLAN, _safe=True) or wf.find(Step, "./plan.py")
            boot = wf.find(Step, "./plan.py"); boot.set_state(StepState.RUNNING)
            implkit.confirm_static(wf, boot, ["src/a.txt"])
            wf.define_step(boot, "cc a", inp_paths=["src/a.txt"], out_paths=["out/a.o"])
            wf.define_step(boot, "cc b", inp_paths=["out/a.o"], out_paths=["out/b.o"])
            for label, out in (("cc a", "out/a.o"), ("cc b", "out/b.o")):
                st = wf.find(Step, label); st.set_state(StepState.RUNNING)
                wf.update_file_hashes({out: implkit.fake_hash(out)}, cause=HashUpdateCause.SUCCEEDED)
                st.mark_completed(StepHash(b"i" * 32, None, b"o" * 32, None), False)
            boot.mark_completed(StepHash(b"i" * 32, None, b"o" * 32, None), False)
        ups = {"tamper": {"out/a.o": implkit.fake_hash("out/a.o", 5)}, "delete": {"src/a.txt": FileHash.unknown()}}
        for name in order:
            async with wf.db:
                wf.update_file_hashes(ups[name], cause=HashUpdateCause.EXTERNAL)
        async with wf.db:
            return {l: wf.find(Step, l).get_state().name for l in ("cc a", "cc b")}, {p: wf.find(File, p).get_state().name for p in ("out/a.o", "out/b.o")}

print("tamper out/a.o, then delete src/a.txt:", asyncio.run(scenario(["tamper", "delete"])))
print("delete src/a.txt, then tamper out/a.o:", asyncio.run(scenario(["delete", "tamper"])))
