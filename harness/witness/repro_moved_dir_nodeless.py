"""Variant of the moved-directory race that the fix c0d07e5 does not reach: the written file is a
glob match WITHOUT a node (inside a static tree, read by no step), so it is not re-hashed and stays in
`updated` although its (old) path no longer exists."""
import sys, copy
sys.path.insert(0, "/verif/harness")
from simdirector import A, Project, SimDirector, FifoSchedule

plan = [A.static("data/"),
        A.foreach("data/sub/${*n}.dat", [A.step("note ${n}", inp=[], out=["out/note_${n}.txt"])], static=False)]
project = Project(scripts={"./plan.py": plan}, files={"data/sub/p.dat": "p\n"}, env={})
res = []
for watch in (True, False):
    with SimDirector(copy.deepcopy(project), seed=1) as sim:
        r = sim.build(watch=watch, schedule=FifoSchedule(), keep_going=True)
        edits = [("move", "data/sub", "data/old"), ("write", "data/old/p.dat", "p edited\n")]
        if watch:
            r = sim.watch_rebuild(edits, schedule=FifoSchedule())
        else:
            sim.apply(edits); r = sim.build(schedule=FifoSchedule(), keep_going=True)
        print("watch  " if watch else "restart", r.returncode, "ran", r.commands, r.tags("UPDATED", "DELETED"))
        res.append(r)
print("same:", res[0].returncode == res[1].returncode and res[0].files == res[1].files and res[0].graph_canon == res[1].graph_canon)
