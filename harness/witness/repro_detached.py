"""A file that changes while its node is detached is never looked at again by the watcher, also not
after the node has been re-attached by a recycle (its recorded hash is trusted); a restart re-hashes it.
Visible as long as the producing step is not dispatched again (its skip check would re-hash the output)."""
import sys, copy
sys.path.insert(0, "/verif/harness")
from simdirector import A, Project, SimDirector, FifoSchedule

plan = [A.foreach("g/${*n}.in", [A.step("conv ${n}", inp=["${path}"], out=["out/g_${n}.o"])]),
        A.static("src/a.txt", "data/"), A.step("mk", inp=["src/a.txt", "data/gate.dat"], out=["out/m.txt"])]
mk = [A.read_declared(), A.amend(out=["out/x.txt"]), A.write_declared()]      # out/x.txt is an AMENDED output
project = Project(scripts={"./plan.py": plan, "mk": mk}, files={"src/a.txt": "a\n", "data/gate.dat": "g\n", "g/x0.in": "x\n"}, env={})

def run(watch):
    with SimDirector(copy.deepcopy(project), seed=1) as sim:
        kw = dict(schedule=FifoSchedule(), keep_going=True)
        sim.build(watch=watch, **kw)
        def rebuild(edits):
            if watch:
                return sim.watch_rebuild(edits, schedule=FifoSchedule())
            sim.apply(edits)
            return sim.build(**kw)
        rebuild([("remove", "src/a.txt"), ("remove", "g/x0.in")])  # glob changed: the plan re-runs and dies on static(src/a.txt);                  # the plan fails: `mk` and out/x.txt are detached
        rebuild([("remove", "out/x.txt")])                    # node detached: the event is not relevant
        rebuild([("write", "src/a.txt", "a\n"), ("remove", "data/gate.dat")])  # plan ok, mk recycled but blocked
        r = rebuild([])
        row = sim.query("SELECT file.state, file.hash IS NOT NULL FROM file JOIN node ON node.i = file.node WHERE node.label = 'out/x.txt'")
        print("watch  " if watch else "restart", r.returncode, "out/x.txt on disk:", "out/x.txt" in r.files, "state/has hash:", row)
        return r
a = run(True); b = run(False)
print("same graph:", a.graph_canon == b.graph_canon)
