"""Declarations in the name of a static tree on the real Workflow (the kernel protocol cannot address a tree as
declarer: kreplay resolves declarers as steps).  Prefix: plan RUNNING with the static trees a/ and b/ (witness 4 of
Lemmas/OwnershipWitness.lean); then `declare_static_files(tree a/, ["b/x"])` resp. `amend_step(tree a/, out=["b/x"])`,
each on a fresh database, and the C08 ownership oracle before and after."""
import asyncio, contextlib, sys
sys.path.insert(0, "/verif/harness")
import kreplay, koracles
from stepup.core.static_tree import StaticTree

P = "2e2f706c616e2e7079"
PREFIX = ["k reset 100 . . . .", f"k define root:- {P} 2e . . . . PLAN 0 1 . .", f"k pop step:{P}",
          f"k tree step:{P} 61", f"k tree step:{P} 62"]

async def one(name, call):
    rp = kreplay.Replayer()
    async with contextlib.AsyncExitStack() as cm:
        await rp.run(cm, PREFIX)
        wf = rp.wf
        async with wf.db:
            before = koracles.ownership_invariants(koracles.Snapshot(wf))
        try:
            async with wf.db:
                tree = wf.find(StaticTree, "a/")
                call(wf, tree)
            ans = "accepted"
        except Exception as exc:  # noqa: BLE001
            ans = f"rejected: {type(exc).__name__}: {exc}"
        async with wf.db:
            after = koracles.ownership_invariants(koracles.Snapshot(wf))
    print(name, "|", ans, "| before:", before, "| after:", after)

asyncio.run(one("declare_static_files(tree a/, [b/x])", lambda wf, t: wf.declare_static_files(t, ["b/x"])))
asyncio.run(one("amend_step(tree a/, out=[b/x])",
                lambda wf, t: wf.amend_step(t, inp_paths=[], env_deps=[], out_paths=["b/x"], vol_paths=[],
                                            ran_concurrently=lambda p, c: False)))
