"""Witness for lean/StepupModel/Lemmas/BuildWitness.lean `promoted_hash_job_delays_dispatch`.

Run: /venv/bin/python harness/witness/build_promoted_hash_wakeup.py   (exit 0 = the situation was reached)

Reproduce, on the real Builder/HashQueue/Scheduler/Workflow/DirectorHandler, the delayed wake-up after a
promoted hash job confirms a static file (executor stubbed: commands and hashing are scripted)."""
import asyncio, sys, faulthandler
sys.path.insert(0, "/verif/harness")
faulthandler.dump_traceback_later(60, exit=True)
import implkit
from implkit import workflow, fake_hash, Step, File, FileState, HashUpdateCause
from stepup.core.builder import Builder
from stepup.core.director import DirectorHandler
from stepup.core.enums import StepState
from jobloopcorr import StubReporter

from stepup.core.enums import Need
NEED = Need.DEFAULT.value
LOG = []
def log(*a):
    LOG.append(" ".join(str(x) for x in a)); print(*a, flush=True)

class Exec:
    """Stub executor: a step runs its scripted coroutine; a hash job waits for its gate, then applies the
    hash exactly as Executor._run_hash_job does (update_file_hashes in a transaction, then the future)."""
    write_joblog = False
    def __init__(self): self.scripts = {}; self.gates = {}; self.wf = None; self.db = None; self.sched=None
    def gate(self, k): return self.gates.setdefault(k, asyncio.Event())
    def defer(self, *a, **k): log("executor.defer", a, k)
    async def execute_job(self, job_i, step, inp_hashes, env_deps):
        log("START", step.label, "job", job_i)
        await self.scripts[step.label](job_i, step)
        async with self.db:
            step.mark_completed(None, False)      # final transaction (outcome is irrelevant here)
        log("END", step.label)
    async def run_hash_job(self, job):
        log("HASH start", job.path, "claimed-by", "promoted" if asyncio.current_task() not in B.running_tasks else "loop")
        await self.gate(("h", job.path)).wait()
        async with self.db:
            self.wf.update_file_hashes({job.path: fake_hash(job.path)}, cause=job.cause)
        if not job.future.done():
            job.future.set_result(fake_hash(job.path))
        log("HASH done", job.path)

async def settle(n=30):
    for _ in range(n): await asyncio.sleep(0)

class _Rollback(Exception): pass
async def eligible(sched, wf):
    """What pop_next_job would pick, without dispatching: refresh + SELECT in a transaction that is rolled back."""
    res = None
    try:
        async with sched.db:
            sched._update_meta_safe(); sched._update_meta_after(); sched._update_meta_ready()
            r = sched._get_next_step()
            res = None if r is None else r[0].label
            raise _Rollback
    except _Rollback:
        pass
    return res

async def main():
    global B
    async with workflow(with_scheduler=True) as (wf, sched):
        db = wf.db
        ex = Exec(); ex.wf = wf; ex.db = db; ex.sched = sched
        polls = []
        class Proxy:
            def __getattr__(self, n): return getattr(sched, n)
            def __setattr__(self, n, v): setattr(sched, n, v)
            async def pop_next_job(self):
                j = await sched.pop_next_job(); polls.append(None if j is None else j.step.label)
                log("poll ->", polls[-1]); return j
        B = Builder(scheduler=Proxy(), workflow=wf, db=db, reporter=StubReporter(), executor=ex, njob=2, live_progress=False)
        H = DirectorHandler(scheduler=sched, workflow=wf, db=db, reporter=StubReporter(), executor=ex, builder=B,
                            watcher=None, stop_event=asyncio.Event())
        async with db:
            wf.define_step(wf.root, "A")

        async def script_A(job_i, step):
            await H.define_step(job_i, "C", [], [], [], [], ".", NEED, {})          # C takes the second slot
            await ex.gate("A1").wait()
            await H.declare_static(job_i, ["data/"], [], [])                       # static tree
            await H.define_step(job_i, "B", ["data/f"], [], [], [], ".", NEED, {})     # B waits for data/f (UNCONFIRMED)
            log("A defined B; queue:", [j.path for j in B.hash_queue._queue] if hasattr(B.hash_queue, "_queue") else "?")
            await ex.gate("A2").wait()
            log("A calls amend(inp=data/f)")
            ok = await H.amend_step(job_i, ["data/f"], set(), [], [])               # promoted hash job inside
            log("A amend returned", ok)
            await ex.gate("A3").wait()
            log("A defines D (define_step sets the wake event)")
            await H.define_step(job_i, "D", [], [], [], [], ".", NEED, {})
            await ex.gate("A4").wait()
        async def script_C(job_i, step):
            await ex.gate("C").wait()
        async def script_B(job_i, step):
            pass
        ex.scripts = {"A": script_A, "C": script_C, "B": script_B, "D": script_B}

        async def fstate(path):
            async with db: return wf.find(File, path).get_state().name
        async def sstate(label):
            async with db: return wf.find(Step, label).get_state().name
        loop_task = asyncio.create_task(B.job_loop())
        await settle()
        log("running:", sorted(j.step.label for j in B.running_tasks.values()))
        ex.gate("A1").set(); await settle()
        log("after define B: running", len(B.running_tasks), "eligible:", (await eligible(sched, wf)))
        ex.gate("A2").set(); await settle()          # amend -> promoted runner claims the queued job, waits in 'hashing'
        ex.gate("C").set(); await settle()           # C ends: slot free, loop polls, nothing eligible, parks
        log("after C ended: running", len(B.running_tasks), "wake set:", B.wake_job_loop.is_set(), "eligible:", (await eligible(sched, wf)))
        npolls = len(polls)
        ex.gate(("h", "data/f")).set(); await settle()   # promoted hash job confirms data/f
        log("after promoted hash: data/f", await fstate("data/f"), "| running", len(B.running_tasks), "of njob 2 | wake set:",
            B.wake_job_loop.is_set(), "| loop done:", loop_task.done(), "| polls since:", len(polls) - npolls,
            "| eligible now:", (await eligible(sched, wf)), "| B state:", (await sstate("B")))
        witness = (len(B.running_tasks) < 2 and not B.wake_job_loop.is_set() and (await eligible(sched, wf)) == "B"
                   and len(polls) == npolls and (await sstate("B")) == "PENDING")
        log("PARKED WITH FREE SLOT, WAKE CLEAR, STEP ELIGIBLE:", witness)
        for _ in range(200): await asyncio.sleep(0)
        log("... 200 more loop turns: polls since:", len(polls) - npolls, "B state:", (await sstate("B")))
        ex.gate("A3").set(); await settle(60)        # the next wake-up: B is dispatched at last
        log("after the next wake-up (define D): polls", polls[npolls:], "B state:", (await sstate("B")))
        ex.gate("A4").set(); await settle(60)
        await asyncio.wait_for(loop_task, 5)
        log("loop returned; polls:", polls)
        return witness

w = asyncio.run(main())
sys.exit(0 if w else 1)
