"""Minimal reproductions of the four C14 finding classes (watch rebuild versus restart).
Usage: PYTHONHASHSEED=0 /venv/bin/python repro_c14.py [repo_root]"""
import sys, copy
if len(sys.argv) > 1:
    sys.path.insert(0, sys.argv[1])
    import os; os.environ["VERIF_REPO"] = sys.argv[1]
sys.path.insert(0, "/verif/harness")
from simdirector import A, Project, SimDirector, FifoSchedule

def pair(name, project, edits):
    out = []
    for watch in (True, False):
        with SimDirector(copy.deepcopy(project), seed=1) as sim:
            r = sim.build(watch=watch, schedule=FifoSchedule(), keep_going=True)
            assert r.status == "done", r.error
            if watch:
                r = sim.watch_rebuild(edits, schedule=FifoSchedule())
            else:
                sim.apply(edits); r = sim.build(schedule=FifoSchedule(), keep_going=True)
            out.append(r)
    w, r = out
    same = w.status == r.status and w.returncode == r.returncode and w.files == r.files and w.graph_canon == r.graph_canon
    print(f"{name}: {'SAME' if same else 'DIFFERENT'}")
    print(f"   watch  : {w.status} {w.returncode!r} ran {w.commands} items {w.tags('UPDATED','DELETED')} {(w.error or '').strip().splitlines()[-1:] }")
    print(f"   restart: {r.status} {r.returncode!r} ran {r.commands} reports {r.tags('UPDATED','DELETED')}")
    return same

# 1. F8: a new directory that matches a pattern (and: a file in a new directory under a recursive pattern)
plan1 = [A.foreach("mods/${*n}/", [A.step("pack ${n}", inp=[], out=["out/pack_${n}.txt"])])]
p1 = Project(scripts={"./plan.py": plan1}, files={"mods/one/x.txt": "x\n"}, env={})
pair("new-directory (mkdir mods/two)", p1, [("mkdir", "mods/two")])
plan1b = [A.foreach("rec/**/${*n}.md", [A.step("md ${n}", inp=["${path}"], out=["out/md_${n}.txt"])])]
p1b = Project(scripts={"./plan.py": plan1b}, files={"rec/top.md": "t\n"}, env={})
pair("new-directory (file in new dir rec/sub/)", p1b, [("write", "rec/sub/page.md", "p\n")])
pair("directory moved away and back", p1, [("move", "mods", "mods_tmp"), ("move", "mods_tmp", "mods")])
# 2. a matched directory is removed
pair("removed-directory (rm -r mods/one)", p1, [("rmtree", "mods/one")])
# 3. crash: a created file matches a pattern and is an undeclared input of a step
plan3 = [A.foreach("g/${*n}.in", [A.step("conv ${n}", inp=["${path}"], out=["out/g_${n}.o"])]),
         A.step("late", inp=["g/late.in"], out=["out/late.txt"])]
p3 = Project(scripts={"./plan.py": plan3}, files={"g/x0.in": "x\n"}, env={})
pair("unexpected-hash-update (create g/late.in)", p3, [("write", "g/late.in", "l\n")])
# 4. crash: a watched directory is re-created and gone again before the event is handled
plan4 = [A.static("src/a.txt"), A.step("cc", inp=["src/a.txt"], out=["out/a.o"])]
p4 = Project(scripts={"./plan.py": plan4}, files={"src/a.txt": "a\n"}, env={})
pair("vanished-directory (rm -r src; mkdir src; mv src src2)", p4, [("rmtree", "src"), ("mkdir", "src"), ("move", "src", "src2")])
