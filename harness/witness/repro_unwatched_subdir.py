"""A file created in an EXISTING sub-directory that holds no match yet, under a recursive pattern:
only the parents of the current matches and the pattern's base directory are watched, so the
watcher never sees it; a restart globs afresh."""
import sys, copy
sys.path.insert(0, "/verif/harness")
from simdirector import A, Project, SimDirector, FifoSchedule

plan = [A.foreach("rec/**/${*n}.md", [A.step("md ${n}", inp=["${path}"], out=["out/md_${n}.txt"])])]
project = Project(scripts={"./plan.py": plan}, files={"rec/top.md": "t\n"}, env={})
res = []
for watch in (True, False):
    with SimDirector(copy.deepcopy(project), seed=1) as sim:
        sim.apply([("mkdir", "rec/sub")])                     # exists, but empty, when the pattern is registered
        r = sim.build(watch=watch, schedule=FifoSchedule())
        edits = [("write", "rec/sub/deep.md", "d\n")]
        if watch:
            r = sim.watch_rebuild(edits, schedule=FifoSchedule())
        else:
            sim.apply(edits); r = sim.build(schedule=FifoSchedule())
        print("watch  " if watch else "restart", r.returncode, "ran", r.commands, "watched:", r.watched_dirs, r.tags("UPDATED"))
        res.append(r)
print("same:", res[0].files == res[1].files and res[0].graph_canon == res[1].graph_canon)
