import sys, asyncio
sys.path.insert(0,'/verif/harness')
import implkit, kdump
from implkit import *
async def main():
    async with implkit.workflow(with_scheduler=True) as (wf, sched):
        async with wf.db:
            wf.define_step(wf.root, "./plan.py", need=Need.PLAN, _safe=True)
        job = await sched.pop_next_job(); plan = job.step
        async with wf.db:
            wf.define_step(plan, "sub", need=Need.PLAN)
        async with wf.db:
            plan.mark_completed(kdump.step_token(1), False)
        job = await sched.pop_next_job(); sub = job.step; assert sub.label == "sub"
        async with wf.db:
            wf.define_step(sub, "leaf")
            sub.mark_completed(kdump.step_token(2), False)
        # the plan has to be reconsidered (e.g. plan.py was touched): it is hash-checked and skipped
        async with wf.db:
            wf.mark_step_pending(plan)
        job = await sched.pop_next_job(); assert job.step.label == "./plan.py"
        async with wf.db:
            print("plan state", plan.get_state().name)
            plan.mark_completed(kdump.step_token(1), False)     # skip: SUCCEEDED again
            leaf = wf.find(Step, "leaf")
            wf.mark_step_pending(leaf)                          # e.g. one of its inputs changed
        job = await sched.pop_next_job()
        async with wf.db:
            row = wf.db.execute("SELECT state,_safe,_check_safe FROM step WHERE node=?", (leaf.i,)).fetchone()
        print("dispatched:", None if job is None else job.step.label, "leaf (state,_safe,_check_safe) =", row)
        print("states:", {l: wf.find(Step,l).get_state().name for l in ("./plan.py","sub","leaf")})
asyncio.run(main())
