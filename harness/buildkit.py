"""Helpers shared by the whole-build oracles of C01, C02 and C04 (simulated director).

Parsing of the canonical graph text (`simdirector.canon_graph`) into blocks, the scopes in which
two graphs are compared, the cone of an edit as the property C04 defines it, and generators of
"racing" projects in which several plan steps declare things concurrently.
"""

from __future__ import annotations

import copy
import re
from dataclasses import dataclass, field

from simdirector import A, FifoSchedule, LifoSchedule, Project, RandomSchedule, plan_file

DIGEST_PROPS = ("inp_digest", "out_digest", "explained")


@dataclass
class Block:
    key: str
    detached: bool
    props: list[tuple[str, str]] = field(default_factory=list)
    rels: list[tuple[str, str]] = field(default_factory=list)

    def get(self, name: str) -> list[str]:
        return [v for n, v in self.props if n == name]

    def rel(self, role: str) -> list[str]:
        return [k for r, k in self.rels if r == role]


def parse_graph(canon: str | None) -> dict[str, Block]:
    """Blocks of a canonical graph text, keyed by `kind:label` (parentheses of detached nodes
    removed from the key and remembered in `detached`)."""
    blocks: dict[str, Block] = {}
    if not canon:
        return blocks
    for text in canon.split("\n\n"):
        lines = [ln for ln in text.split("\n") if ln.strip()]
        if not lines:
            continue
        head = lines[0]
        detached = head.startswith("(") and head.endswith(")")
        key = head[1:-1] if detached else head
        block = Block(key, detached)
        for line in lines[1:]:
            if line[20:23] == " = ":
                block.props.append((line[:20].strip(), line[23:]))
            else:
                block.rels.append((line[:20].strip(), line[23:]))
        blocks[key] = block
    return blocks


def is_detached_ref(key: str) -> bool:
    return key.startswith("(") and key.endswith(")")


def strip_ref(key: str) -> str:
    if is_detached_ref(key):
        key = key[1:-1]
    return key.removesuffix(" [dynamic]")


def active_view(canon: str | None, *, digests: str = "files") -> str:
    """The part of a graph that C01 talks about: attached nodes with their states, needs, env
    variables, glob patterns, resources, creator and dependency relations (dynamic flags
    included) among attached nodes.

    digests: "all" keeps every digest line, "files" keeps the content digests of files and drops
    the derived step digests (`inp_digest`, `out_digest`, `explained`), "none" drops both.
    Detached nodes (memories kept for recycling) and the relations that point at them are not
    part of the active workflow.
    """
    out = []
    for key, block in sorted(parse_graph(canon).items()):
        if block.detached:
            continue
        lines = []
        for name, value in block.props:
            if name in DIGEST_PROPS and digests != "all":
                continue
            if name == "digest" and digests == "none":
                continue
            lines.append(f"{name:>20s} = {value}")
        for role, ref in block.rels:
            if is_detached_ref(ref.removesuffix(" [dynamic]")):
                continue
            lines.append(f"{role:>20s}   {ref}")
        out.append("\n".join([key, *sorted(lines)]))
    return "\n\n".join(out) + "\n"


def step_digests(canon: str | None) -> dict[str, tuple[str, tuple[str, ...]]]:
    """Attached steps: label -> (state, (inp_digest, out_digest) or ())."""
    result = {}
    for key, block in parse_graph(canon).items():
        if block.detached or not key.startswith("step:"):
            continue
        state = (block.get("state") or ["?"])[0]
        result[key] = (state, tuple(block.get("inp_digest") + block.get("out_digest")))
    return result


def diff_lines(a: str, b: str, limit: int = 12) -> list[str]:
    """A short line diff of two canonical texts (block head + differing lines)."""
    pa, pb = _by_block(a), _by_block(b)
    out = []
    for key in sorted(set(pa) | set(pb)):
        la, lb = pa.get(key), pb.get(key)
        if la == lb:
            continue
        if la is None:
            out.append(f"+ block {key}")
        elif lb is None:
            out.append(f"- block {key}")
        else:
            for line in sorted(set(la) - set(lb)):
                out.append(f"- {key}: {line.strip()}")
            for line in sorted(set(lb) - set(la)):
                out.append(f"+ {key}: {line.strip()}")
        if len(out) >= limit:
            break
    return out[:limit]


def _by_block(text: str) -> dict[str, list[str]]:
    result = {}
    for block in (text or "").split("\n\n"):
        lines = [ln for ln in block.split("\n") if ln.strip()]
        if lines:
            result[lines[0]] = lines[1:]
    return result


def diff_kinds(a: str, b: str) -> list[str]:
    """Stable classification of the differences between two canonical texts: one word per kind
    of differing line (`block:<kind>`, `<kind>.<property or role>`), sorted, for signatures."""
    pa, pb = _by_block(a), _by_block(b)
    kinds = set()
    for key in set(pa) | set(pb):
        la, lb = pa.get(key), pb.get(key)
        if la == lb:
            continue
        nkind = key.strip("(").split(":", 1)[0]
        if la is None or lb is None:
            kinds.add(f"block:{nkind}")
            continue
        for line in set(la) ^ set(lb):
            kinds.add(f"{nkind}.{line[:20].strip()}")
    return sorted(kinds)


# ---------------------------------------------------------------------------------------------
# Cone of an edit (C04)
# ---------------------------------------------------------------------------------------------


def _glob_regex(pattern_line: str):
    """Compile the `nglob` line of a step block with the repository's own compiler."""
    from stepup.core.nglob import NamedGlob

    m = re.fullmatch(r"(.*?)(?: \((.*)\))?", pattern_line)
    pattern, subs = m.group(1), {}
    if m.group(2):
        for item in m.group(2).split(" "):
            k, _, v = item.partition("=")
            subs[k] = v
    try:
        return NamedGlob(pattern, subs)._regex
    except Exception:
        return None


def cone(graphs: list[str | None], edited: set[str], executed: set[str] | None = None) -> set[str]:
    """Least set of step keys closed under the three clauses of C04, computed on the union of
    the given graphs (before and after the rebuild; attached and detached nodes alike, since a
    step that the rebuild dropped was active when it started):

    * the step consumes an edited file or one of its glob patterns matches an edited path;
    * the step consumes an output of a step in the set;
    * the step was declared by (is a product of) a step in the set.

    With `executed` the set is built inside the executed steps only, which is what the property
    says: an executed step must be justified by an edited file or by another *executed* step (a
    step declared by a plan that was merely re-checked and skipped is not justified by it).
    """
    steps: dict[str, dict] = {}
    creator_of_file: dict[str, set[str]] = {}
    for canon in graphs:
        for key, block in parse_graph(canon).items():
            if key.startswith("step:"):
                info = steps.setdefault(key, {"inputs": set(), "creators": set(), "globs": set()})
                for ref in block.rel("source"):
                    info["inputs"].add(strip_ref(ref))
                for ref in block.rel("creator"):
                    info["creators"].add(strip_ref(ref))
                for line in block.get("nglob"):
                    info["globs"].add(line)
            elif key.startswith("file:"):
                for ref in block.rel("creator") + block.rel("source"):
                    ref = strip_ref(ref)
                    if ref.startswith("step:"):
                        creator_of_file.setdefault(key, set()).add(ref)
    if executed is not None:
        steps = {k: v for k, v in steps.items() if k in executed}
    result: set[str] = set()
    for key, info in steps.items():
        if any(f"file:{p}" in info["inputs"] for p in edited):
            result.add(key)
            continue
        for line in info["globs"]:
            regex = _glob_regex(line)
            if regex is not None and any(regex.fullmatch(p) for p in edited):
                result.add(key)
                break
    changed = True
    while changed:
        changed = False
        for key, info in steps.items():
            if key in result:
                continue
            if info["creators"] & result or any(
                creator_of_file.get(f, set()) & result for f in info["inputs"]
            ):
                result.add(key)
                changed = True
    return result


# ---------------------------------------------------------------------------------------------
# Schedules and configurations (C02)
# ---------------------------------------------------------------------------------------------


def schedule_variants(rng, resources: str | None, k: int) -> list[dict]:
    """`k` build configurations that differ in job count, resource limits and dispatch order."""
    variants = [
        {"njob": 1, "schedule": ("fifo",)},
        {"njob": 4, "schedule": ("lifo",)},
        {"njob": 2, "schedule": ("random", rng.randrange(1 << 30))},
        {"njob": 3, "schedule": ("random", rng.randrange(1 << 30))},
        {"njob": rng.randint(1, 4), "schedule": ("random", rng.randrange(1 << 30))},
        {"njob": rng.randint(2, 4), "schedule": ("fifo",)},
    ][:k]
    for i, variant in enumerate(variants):
        if resources:
            name, _, units = resources.partition(":")
            # More units than any step needs, or exactly as configured: never fewer (a step
            # that cannot get its resources stays pending, which is not a scheduling question).
            variant["resources"] = resources if i % 2 == 0 else f"{name}:{int(units) + i}"
    return variants


def make_schedule(spec):
    if spec[0] == "fifo":
        return FifoSchedule()
    if spec[0] == "lifo":
        return LifoSchedule()
    return RandomSchedule(spec[1])


def build_kwargs(variant: dict) -> dict:
    kwargs = {k: v for k, v in variant.items() if k != "schedule"}
    kwargs["schedule"] = make_schedule(variant["schedule"])
    return kwargs


def rc_class(result) -> str:
    """Return-code class of a build phase: success / failed / pending / other."""
    if result.status != "done":
        return result.status
    rc = result.returncode.value
    if rc == 0:
        return "success"
    if rc & 1:
        return "internal"
    if rc & 4:
        return "failed"
    if rc & 16:
        return "pending"
    if rc & 32:
        return "drained"
    if rc & 8:
        return "warning"
    return f"rc{rc}"


def rejected_texts(result) -> list[tuple[str, str]]:
    """`(exception class, message)` of every rejected request of a build phase, sorted."""
    return sorted({(cls, msg) for run in result.runs for _, _, cls, msg in run.rpc_errors})


# ---------------------------------------------------------------------------------------------
# Racing projects: several plan steps that declare concurrently (C02)
# ---------------------------------------------------------------------------------------------

RACE_SOURCES = ["src/a.txt", "src/b.txt", "src/c.txt", "t/x.dat", "t/sub/y.dat", "v/w.dat"]


def gen_race_project(rng, *, conflict: bool = False) -> tuple[Project, dict]:
    """A boot plan that starts 2-3 sub-plans, which run concurrently and declare static files,
    a static tree, globs and steps that refer to each other's files across plans:

    * a step of one plan uses a source that another plan declares static (either order of
      arrival must give the same owner);
    * a step of one plan uses the output of a step of another plan (the input exists as an
      undeclared placeholder or as a planned output, depending on the order);
    * a plan declares a static tree under which another plan's step has an input;
    * with `conflict`, two plans make declarations that exclude each other (same output, same
      static file, a static file that is another plan's output, the same step): the build must
      fail under every schedule, with the same error text.
    """
    nplan = rng.randint(2, 3)
    plans = [f"./p{i}.py" for i in range(nplan)]
    files = {p: f"source {p} v0\n" for p in RACE_SOURCES}
    decls: dict[str, list] = {p: [] for p in plans}
    info = {"plans": plans, "conflict": None}
    extra_scripts: dict = {}
    # who declares which source
    owners = {}
    for src in ["src/a.txt", "src/b.txt", "src/c.txt"]:
        owner = rng.choice(plans)
        owners[src] = owner
        decls[owner].append(A.static(src))
    tree_owner = rng.choice(plans)
    use_tree = rng.random() < 0.7
    if use_tree:
        # two trees in ONE request (the handler registers them in a loop and collects the files
        # whose hashes must be confirmed), sometimes with a literal file in the same request
        if rng.random() < 0.5:
            decls[tree_owner].append(A.static("t/", "v/"))
        else:
            decls[tree_owner].append(A.static("t/"))
            decls[rng.choice(plans)].append(A.static("v/"))
    else:
        decls[tree_owner].append(A.static("t/x.dat", "t/sub/y.dat"))
        decls[tree_owner].append(A.static("v/w.dat"))
    # steps
    outputs: list[str] = []
    nstep = rng.randint(2, 5)
    step_plans = {}
    for i in range(nstep):
        plan = rng.choice(plans)
        pool = RACE_SOURCES + outputs
        inp = sorted(rng.sample(pool, rng.randint(1, min(3, len(pool)))))
        out = [f"out/r{i}.txt"]
        kwargs = {}
        if rng.random() < 0.2:
            kwargs["optional"] = True
        if rng.random() < 0.25:
            kwargs["env"] = ["SIM_A"]
        decls[plan].append(A.step(f"work r{i}", inp=inp, out=out, **kwargs))
        step_plans[f"work r{i}"] = plan
        outputs.append(out[0])
    if rng.random() < 0.5:
        plan = rng.choice(plans)
        decls[plan].append(
            A.foreach("src/${*n}.txt", [A.step("cat ${n}", inp=["${path}"], out=["out/c_${n}.txt"])],
                      static=False)
        )
    if conflict:
        kind = rng.choice(["same-output", "same-static", "static-vs-output", "same-step", "tree-vs-file",
                           "glob-vs-amended-volatile", "glob-vs-amended-output"])
        a, b = rng.sample(plans, 2)
        # a working directory other than the root makes the label differ from the command (`cmd  # wd=w/`):
        # the error text must name the step the same way whichever declaration came first
        wda, wdb = (rng.choice([".", "w/"]), rng.choice([".", "w/", "v/"]))
        info["workdirs"] = [wda, wdb]
        if kind == "same-output":
            decls[a].append(A.step("dup a", inp=["src/a.txt"], out=["out/dup.txt"], workdir=wda))
            decls[b].append(A.step("dup b", inp=["src/b.txt"], out=["out/dup.txt"], workdir=wdb))
        elif kind == "same-static":
            files["src/d.txt"] = "source d\n"
            decls[a].append(A.static("src/d.txt"))
            decls[b].append(A.static("src/d.txt"))
        elif kind == "static-vs-output":
            files["out/mix.txt"] = "user file\n"
            decls[a].append(A.static("out/mix.txt"))
            decls[b].append(A.step("mix", inp=["src/a.txt"], out=["out/mix.txt"], workdir=wdb))
        elif kind in ("glob-vs-amended-volatile", "glob-vs-amended-output"):
            # one plan registers a pattern, a step of the other plan announces, while it runs, a volatile (or
            # regular) output that the pattern matches: rejected whichever request arrives first
            role = "vol" if kind.endswith("volatile") else "out"
            decls[a].append(A.glob("tmp/*.log"))
            decls[b].append(A.step("logger", inp=["src/b.txt"], out=["out/logger.txt"], workdir=wdb))
            extra_scripts["logger" + ("" if wdb == "." else f"  # wd={wdb}")] = [
                A.read_declared(), A.nop(), A.amend(**{role: ["tmp/x.log"]}), A.write("tmp/x.log", "log\n", True),
                A.write_declared()]
        elif kind == "same-step":
            decls[a].append(A.step("twice", inp=["src/a.txt"], out=["out/twice.txt"]))
            decls[b].append(A.step("twice", inp=["src/a.txt"], out=["out/twice.txt"]))
        else:
            files["u/z.dat"] = "under u\n"
            decls[a].append(A.static("u/"))
            decls[b].append(A.static("u/z.dat"))
        info["conflict"] = kind
    for plan in plans:
        rng.shuffle(decls[plan])
    scripts = dict(extra_scripts)
    main = []
    for plan in plans:
        fname = plan[2:]
        scripts[plan] = decls[plan]
        files[fname] = plan_file(decls[plan])
    main.append(A.static(*[p[2:] for p in plans]))
    for plan in plans:
        main.append(A.step(plan, inp=[plan[2:]], plan=True))
    scripts["./plan.py"] = main
    files["plan.py"] = plan_file(main)
    project = Project(scripts=scripts, files=files, env={"SIM_A": "0"})
    info["nstep"] = nstep
    return project, info


def jsonable_project(project: Project) -> dict:
    def conv(obj):
        if isinstance(obj, bytes):
            return obj.decode("utf-8", "surrogateescape")
        if isinstance(obj, (list, tuple)):
            return [conv(x) for x in obj]
        if isinstance(obj, dict):
            return {str(k): conv(v) for k, v in obj.items()}
        return obj

    return {"scripts": conv(project.scripts), "files": conv(project.files), "env": conv(project.env)}


def project_from_json(data: dict) -> Project:
    def conv(obj):
        if isinstance(obj, list):
            items = [conv(x) for x in obj]
            # actions are tuples whose first element is the action name
            if items and isinstance(items[0], str) and items[0] in ACTION_NAMES:
                return tuple(items)
            return items
        if isinstance(obj, dict):
            return {k: conv(v) for k, v in obj.items()}
        return obj

    return Project(scripts=conv(data["scripts"]), files=dict(data["files"]), env=dict(data["env"]))


ACTION_NAMES = {
    "static", "static_tree", "glob", "step", "amend", "hold", "release", "read", "getenv", "write",
    "remove", "exit", "nop", "read_declared", "write_declared", "foreach",
}


def clone(project: Project) -> Project:
    return copy.deepcopy(project)


# ---------------------------------------------------------------------------------------------
# Histories (C01, C04): projgen's generator plus a few shapes it does not have
# ---------------------------------------------------------------------------------------------


def toggle_sub(rng, model):
    """Drop the sub-plan with everything it declares, or bring it back unchanged (the shape the
    property text of C01 names). Applicable when no step of the main plan consumes an output of a
    sub-plan step. The parked steps travel with the model. Returns `(new model, name)`."""
    import projgen

    new = copy.deepcopy(model)
    parked = getattr(new, "parked_sub", None)
    if new.has_sub:
        sub_steps = [s for s in new.steps if s.plan == projgen.SUB]
        sub_outputs = {o for s in sub_steps for o in s.all_outputs()}
        if not sub_steps or len(sub_steps) == len(new.steps) or any(
            p in sub_outputs for s in new.steps if s.plan == projgen.MAIN for p in s.all_inputs()
        ):
            return new, "none"
        new.steps = [s for s in new.steps if s.plan == projgen.MAIN]
        new.parked_sub = sub_steps
        new.has_sub = False
        return new, "drop_sub"
    if not parked:
        return new, "none"
    available = set(new.sources()) | set(new.available_outputs())
    taken = set(new.available_outputs())
    names = {s.name for s in new.steps}
    for step in parked:
        if (not all(p in available for p in step.all_inputs()) or any(o in taken for o in step.all_outputs())
                or step.name in names):
            return new, "none"
        available |= set(step.all_outputs())
    new.steps.extend(parked)
    new.parked_sub = None
    new.has_sub = True
    return new, "readd_sub"


def revert_env(rng, model, earlier_envs):
    """Set a tracked environment variable back to a value it had in an earlier phase (the shape
    1 -> 2 -> 1: a rescan that compares with a value recorded too early misses it)."""
    new = copy.deepcopy(model)
    candidates = []
    for name, value in sorted(new.env.items()):
        past = sorted({env.get(name) for env in earlier_envs if env.get(name) not in (None, value)})
        if past:
            candidates.append((name, past))
    if not candidates:
        # nothing to go back to yet: make a first change, so that a later phase can revert it
        import projgen

        return projgen.mutate(rng, model, "change_env")
    name, past = rng.choice(candidates)
    new.env[name] = rng.choice(past)
    return new, "revert_env"


def final_render(model):
    import projgen

    return projgen.render(model)


@dataclass
class Hist:
    events: list
    models: list
    mutations: list
    source_only: list
    """Per "edits" event: the set of edited source paths when the edit touches nothing but
    source files (no plan, script or environment change), else None."""

    @property
    def final_model(self):
        return self.models[-1]


SOURCE_KINDS = ("change_source", "add_glob_source", "del_glob_source", "add_tree_source")


def gen_hist(rng, model, *, nphase=None, watch_prob=0.3, break_prob=0.12, sub_prob=0.12,
             source_prob=0.0, njob_max=3) -> Hist:
    """build, then `nphase-1` times (1-2 mutations, build). Extra shapes: a phase in which a
    consumed static source disappears (the build fails) followed by its repair; dropping and
    re-adding the whole sub-plan; phases that edit source files only (probability
    `source_prob`, used by C04's cone check)."""
    import projgen

    nphase = nphase or rng.randint(2, 5)
    watching = rng.random() < watch_prob
    events: list = []
    models = [model]
    mutations: list[str] = []
    source_only: list = []

    def build_kwargs():
        kwargs = {"njob": rng.randint(1, njob_max)}
        if models[-1].resources:
            kwargs["resources"] = models[-1].resources
        return kwargs

    first = build_kwargs()
    if watching:
        first["watch"] = True
    events.append(("build", first))
    current = model
    for _ in range(nphase - 1):
        old_project = final_render(current)
        applied = []
        only_sources = rng.random() < source_prob
        for _ in range(rng.randint(1, 2)):
            if only_sources:
                kind = rng.choice(SOURCE_KINDS[:2] if rng.random() < 0.7 else SOURCE_KINDS)
                current, kind = projgen.mutate(rng, current, kind)
            elif not watching and rng.random() < 0.1:
                current, kind = revert_env(rng, current, [m.env for m in models])
            elif rng.random() < (0.5 if getattr(current, "parked_sub", None) else sub_prob):
                current, kind = toggle_sub(rng, current)
            elif current.dropped and rng.random() < 0.3:
                current, kind = projgen.mutate(rng, current, "readd_step")
            else:
                kind = rng.choice(projgen.MUTATIONS)
                if watching and kind == "change_env":
                    kind = "change_source"
                current, kind = projgen.mutate(rng, current, kind)
            applied.append(kind)
        mutations.append("+".join(applied))
        models.append(current)
        edits = projgen._edits_between(old_project, final_render(current))
        events.append(("edits", edits))
        if all(e[0] in ("write", "remove") and e[1] not in ("plan.py", projgen.SUB_FILE) for e in edits):
            source_only.append({e[1] for e in edits})
        else:
            source_only.append(None)
        if not watching:
            events.append(("build", build_kwargs()))
        if rng.random() < break_prob and current.static:
            # A declared static source disappears: the plan that declares it fails. Then the
            # user restores it.
            path = rng.choice(sorted(current.static))
            events.append(("edits", [("remove", path)]))
            source_only.append(None)
            mutations.append("break")
            models.append(current)
            if not watching:
                events.append(("build", build_kwargs()))
            repair = [("write", path, current.static[path])]
            label = "repair"
            if rng.random() < 0.6:
                # ... and changes another source while the plan's steps are detached leftovers.
                before = final_render(current)
                current, kind = projgen.mutate(rng, current, "change_source")
                repair = [e for e in projgen._edits_between(before, final_render(current)) if e[1] != path] + \
                    [("write", path, current.static[path])]
                label = "repair+" + kind
            events.append(("edits", repair))
            source_only.append(None)
            mutations.append(label)
            models.append(current)
            if not watching:
                events.append(("build", build_kwargs()))
    if watching:
        events.append(("shutdown",))
    return Hist(events, models, mutations, source_only)


def describe_events(events) -> list:
    """Readable, JSON-able form of history events (scripts abbreviated to their labels)."""
    out = []
    for event in events:
        if event[0] == "edits":
            items = []
            for e in event[1]:
                if e[0] == "script":
                    items.append(["script", e[1]])
                elif e[0] == "write":
                    c = e[2]
                    c = c.decode("utf-8", "replace") if isinstance(c, bytes) else c
                    items.append(["write", e[1], c[:60]])
                else:
                    items.append(list(e))
            out.append(["edits", items])
        elif event[0] == "build":
            out.append(["build", {k: v for k, v in event[1].items()}])
        else:
            out.append(list(event))
    return out


# ---------------------------------------------------------------------------------------------
# Plan trees: nested and sibling plans with dependencies across plans (C01)
# ---------------------------------------------------------------------------------------------


@dataclass
class PlanTree:
    """plans: name -> {"parent", "note", "dropped"}; steps: list of dicts (name, plan, inp, out,
    optional); sources: path -> (declaring plan, content)."""

    plans: dict
    steps: list
    sources: dict
    env: dict = field(default_factory=dict)

    def label(self, plan: str) -> str:
        return "./plan.py" if plan == "root" else f"./{plan}.py"

    def file(self, plan: str) -> str:
        return "plan.py" if plan == "root" else f"{plan}.py"

    def active(self, plan: str) -> bool:
        while plan is not None:
            if self.plans[plan]["dropped"]:
                return False
            plan = self.plans[plan]["parent"]
        return True

    def script(self, plan: str) -> list:
        actions = []
        own = sorted(p for p, (owner, _) in self.sources.items() if owner == plan)
        children = [c for c, info in self.plans.items() if info["parent"] == plan and not info["dropped"]]
        if own or children:
            actions.append(A.static(*own, *[self.file(c) for c in children]))
        for step in self.steps:
            if step["plan"] == plan:
                actions.append(A.step(step["name"], inp=step["inp"], out=step["out"], optional=step["optional"],
                                      env_overrides=step.get("ovr"), shell=bool(step.get("shell", False))))
        if plan == "root" and getattr(self, "glob_files", None):
            # a named glob with a constrained wildcard: g/inp10.txt is on disk but does not match
            actions.append(A.static(*sorted(p for p in self.glob_files if p != "g/inp10.txt")))
            actions.append(A.foreach("g/inp${*idx}.txt",
                                     [A.step("cnt ${idx}", inp=["${path}"], out=["out/cnt_${idx}.txt"])],
                                     static=False, idx="[0-9]"))
        for child in children:
            actions.append(A.step(self.label(child), inp=[self.file(child)], plan=True))
        return actions

    def render(self) -> Project:
        scripts, files = {}, {}
        for plan, info in self.plans.items():
            script = self.script(plan)
            scripts[self.label(plan)] = script
            files[self.file(plan)] = plan_file(script, note=f"note {info['note']}")
        for path, (_, content) in self.sources.items():
            files[path] = content
        for path, content in (getattr(self, "glob_files", None) or {}).items():
            files[path] = content
        return Project(scripts=scripts, files=files, env=dict(self.env))


def gen_plan_tree(rng) -> PlanTree:
    """A root plan with 2-4 more plans below it (siblings and one nesting level deeper), each
    declaring its own sources; steps anywhere consume sources and outputs of any plan; some
    producers are optional and needed only through a consumer in another plan."""
    nplan = rng.randint(2, 4)
    plans = {"root": {"parent": None, "note": 0, "dropped": False}}
    for i in range(nplan):
        parent = rng.choice(list(plans)) if rng.random() < 0.55 else "root"
        plans[f"p{i}"] = {"parent": parent, "note": 0, "dropped": False}
    sources = {}
    for plan in plans:
        for k in range(rng.randint(0, 2) if plan != "root" else 1):
            sources[f"src/{plan}_{k}.txt"] = (plan, f"{plan} source {k} v0\n")
    steps, outputs = [], []
    for i in range(rng.randint(3, 7)):
        plan = rng.choice(list(plans))
        pool = sorted(sources) + outputs
        inp = sorted(rng.sample(pool, rng.randint(1, min(2, len(pool)))))
        out = f"out/t{i}.txt"
        steps.append({"name": f"tool t{i}", "plan": plan, "inp": inp, "out": [out], "optional": rng.random() < 0.3})
        outputs.append(out)
    for step in steps:
        if rng.random() < 0.3:
            step["ovr"] = {"OVR": rng.choice(["x", "y"])}
    tree = PlanTree(plans, steps, sources)
    if rng.random() < 0.4:
        tree.glob_files = {"g/inp1.txt": "one\n", "g/inp10.txt": "ten (matches the pattern only without idx=[0-9])\n"}
        if rng.random() < 0.5:
            tree.glob_files["g/inp2.txt"] = "two\n"
    if rng.random() < 0.4:
        # An optional producer high up that is needed only by a consumer in a plan nested at least two
        # levels below the root: dropping that plan must make the producer unneeded again.
        deep = [p for p, info in plans.items() if info["parent"] not in (None, "root")]
        if not deep:
            parent = rng.choice([p for p in plans if p != "root"])
            plans["pd"] = {"parent": parent, "note": 0, "dropped": False}
            deep = ["pd"]
        target = rng.choice(deep)
        owner = rng.choice(["root", "root", plans[plans[target]["parent"]]["parent"] or "root"])
        steps.append({"name": "tool opt", "plan": owner, "inp": [sorted(sources)[0]], "out": ["out/opt.txt"],
                      "optional": True})
        steps.append({"name": "tool use_opt", "plan": target, "inp": ["out/opt.txt"], "out": ["out/use_opt.txt"],
                      "optional": False})
        tree.motif = target
    if rng.random() < 0.35:
        # A plan nested two levels down that declares one source nobody uses and one that a step
        # of the root plan uses: when an ancestor plan is dropped, cleaning removes the first and
        # keeps the second (with the declaring plan step); the plan must run again after a re-add.
        deep = [p for p, info in plans.items() if info["parent"] not in (None, "root")]
        if not deep:
            parent = rng.choice([p for p in plans if p != "root"])
            plans["pe"] = {"parent": parent, "note": 0, "dropped": False}
            deep = ["pe"]
        target = rng.choice(deep)
        sources[f"src/{target}_held.txt"] = (target, "held v0\n")
        sources[f"src/{target}_free.txt"] = (target, "free v0\n")
        steps.append({"name": "tool hold", "plan": "root", "inp": [f"src/{target}_held.txt"],
                      "out": ["out/hold.txt"], "optional": False})
        tree.motif2 = plans[target]["parent"]
    return tree


TREE_MUTATIONS = ("touch_plan", "touch_plan", "edit_source", "edit_source", "drop_child", "readd_child",
                  "toggle_optional")


def mutate_plan_tree(rng, tree: PlanTree, kind: str | None = None) -> tuple[PlanTree, str]:
    new = copy.deepcopy(tree)
    if kind is None and any(info["dropped"] for info in new.plans.values()) and rng.random() < 0.5:
        kind = "readd_child"  # drop, clean up, re-add unchanged: the shape the property text names
    kind = kind or rng.choice(TREE_MUTATIONS)
    if kind == "touch_plan":
        plan = rng.choice([p for p in new.plans if new.active(p)])
        new.plans[plan]["note"] += 1
        return new, f"touch_plan:{plan}"
    if kind == "edit_source":
        path = rng.choice(sorted(new.sources))
        owner, content = new.sources[path]
        head, _, version = content.rstrip("\n").rpartition(" v")
        new.sources[path] = (owner, f"{head} v{int(version) + 1}\n")
        return new, f"edit_source:{path}"
    if kind == "drop_child":
        candidates = [p for p, info in new.plans.items() if p != "root" and new.active(p)]
        if not candidates:
            return new, "none"
        motif = getattr(new, "motif", None)
        plan = motif if motif in candidates and rng.random() < 0.6 else rng.choice(candidates)
        new.plans[plan]["dropped"] = True
        return new, f"drop_child:{plan}"
    if kind == "readd_child":
        candidates = [p for p, info in new.plans.items() if info["dropped"] and new.active(info["parent"])]
        if not candidates:
            return new, "none"
        plan = rng.choice(candidates)
        new.plans[plan]["dropped"] = False
        return new, f"readd_child:{plan}"
    if kind == "flip_shell":
        step = rng.choice(new.steps)
        step["shell"] = not step.get("shell", False)
        return new, f"flip_shell:{step['name']}"
    step = rng.choice(new.steps)
    step["optional"] = not step["optional"]
    return new, f"toggle_optional:{step['name']}"


def gen_tree_history(rng, nphase=None):
    """`(trees, events, mutations)`: build, then 1-3 phases of one mutation each and a build."""
    tree = gen_plan_tree(rng)
    trees, events, mutations = [tree], [("build", {"njob": rng.randint(1, 3)})], []
    forced = []
    if getattr(tree, "motif2", None) and rng.random() < 0.6:
        forced = ["drop_child:" + tree.motif2, "readd_child:" + tree.motif2]
        nphase = max(nphase or 0, 2 + rng.randint(0, 1))
    for n in range(nphase or rng.randint(1, 3)):
        old = trees[-1].render()
        if n < len(forced):
            new = copy.deepcopy(trees[-1])
            what, plan = forced[n].split(":")
            new.plans[plan]["dropped"] = what == "drop_child"
            kind = forced[n]
        else:
            new, kind = mutate_plan_tree(rng, trees[-1])
        import projgen

        events.append(("edits", projgen._edits_between(old, new.render())))
        events.append(("build", {"njob": rng.randint(1, 3)}))
        trees.append(new)
        mutations.append(kind)
    return trees, events, mutations


# ---------------------------------------------------------------------------------------------
# Explicit, generator-independent replay data
# ---------------------------------------------------------------------------------------------


def to_json(obj):
    if isinstance(obj, bytes):
        return {"__bytes__": obj.decode("utf-8", "surrogateescape")}
    if isinstance(obj, (list, tuple)):
        return [to_json(x) for x in obj]
    if isinstance(obj, dict):
        return {str(k): to_json(v) for k, v in obj.items()}
    return obj


def from_json(obj):
    if isinstance(obj, dict):
        if set(obj) == {"__bytes__"}:
            return obj["__bytes__"].encode("utf-8", "surrogateescape")
        return {k: from_json(v) for k, v in obj.items()}
    if isinstance(obj, list):
        items = [from_json(x) for x in obj]
        if items and isinstance(items[0], str) and (items[0] in ACTION_NAMES or items[0] in EDIT_NAMES or
                                                    items[0] in ("build", "edits", "shutdown")):
            return tuple(items)
        return items
    return obj


EDIT_NAMES = {"write", "remove", "rmtree", "mkdir", "move", "touch", "setenv", "script"}


def pack_case(initial: Project, events, final: Project, seed: int, fresh_kwargs: dict, extra: dict | None = None) -> dict:
    """Everything needed to run the case again without the generator."""
    return {"initial": to_json({"scripts": initial.scripts, "files": initial.files, "env": initial.env}),
            "events": to_json(events),
            "final": to_json({"scripts": final.scripts, "files": final.files, "env": final.env}),
            "seed": seed, "fresh_kwargs": to_json(fresh_kwargs), **(extra or {})}


def unpack_case(data: dict):
    def proj(d):
        d = from_json(d)
        return Project(scripts=d["scripts"], files=d["files"], env=d["env"])

    return proj(data["initial"]), from_json(data["events"]), proj(data["final"]), data["seed"], \
        from_json(data["fresh_kwargs"])


def gen_amend_timing_project(rng) -> tuple[Project, dict]:
    """A producer, a consumer that looks at the producer's output first and declares it afterwards
    (`amend(inp=...)` post hoc, as wrappers do that learn their inputs from a tool's log), and 2-4
    unrelated steps of different lengths.  Whether the consumer sees the final file is decided by
    the freshness guard of `amend_step` (`ran_concurrently`): if the producer finished after the
    consumer started, the consumer is deferred and run again.  The final outputs must not depend on
    the number of jobs or on when unrelated steps start and stop."""
    nfill = rng.randint(2, 4)
    plan = [A.static("src/a.txt", "src/b.txt")]
    scripts = {}
    prod = f"make f -n{rng.randint(0, 3)}"
    scripts[prod] = [A.read_declared(), *[A.nop() for _ in range(int(prod[-1]))], A.write_declared()]
    cons = f"scan f -n{rng.randint(1, 4)}"
    scripts[cons] = [A.read_declared(), A.read("out/f.txt", required=False),
                     *[A.nop() for _ in range(int(cons[-1]))], A.amend(inp=["out/f.txt"]), A.write_declared()]
    steps = [A.step(prod, inp=["src/a.txt"], out=["out/f.txt"]), A.step(cons, inp=["src/b.txt"], out=["out/scan.txt"])]
    for i in range(nfill):
        label = f"fill {i} -n{rng.randint(0, 5)}"
        scripts[label] = [A.read_declared(), *[A.nop() for _ in range(int(label[-1]))], A.write_declared()]
        steps.append(A.step(label, inp=[rng.choice(["src/a.txt", "src/b.txt"])], out=[f"out/fill{i}.txt"]))
    rng.shuffle(steps)
    plan.extend(steps)
    scripts["./plan.py"] = plan
    project = Project(scripts=scripts, files={"src/a.txt": "a\n", "src/b.txt": "b\n", "plan.py": plan_file(plan)})
    return project, {"nfill": nfill, "producer": prod, "consumer": cons}


def gen_deferred_producer_project(rng) -> tuple[Project, dict]:
    """A producer that writes its output and then asks for an input that may not be there yet (it is
    deferred and run again, reproducing a byte-identical output), a consumer that announces the
    producer's output with `amend(inp=...)` (parked while the file is not final), and a slow step that
    builds what the producer waits for, plus 0-2 fillers.  With one job and a lucky order nobody is
    deferred; with several jobs the producer and the consumer are.  Whether the build succeeds must not
    depend on that."""
    scripts = {}
    slow = f"slow g -n{rng.randint(2, 5)}"
    scripts[slow] = [A.read_declared(), *[A.nop() for _ in range(int(slow[-1]))], A.write_declared()]
    prod = f"make f -n{rng.randint(0, 2)}"
    scripts[prod] = [A.read_declared(), A.write("out/f.txt"), *[A.nop() for _ in range(int(prod[-1]))],
                     A.amend(inp=["out/g.txt"]), A.read("out/g.txt"), A.write("out/f2.txt")]
    cons = f"use f -n{rng.randint(0, 3)}"
    scripts[cons] = [A.read_declared(), *[A.nop() for _ in range(int(cons[-1]))], A.amend(inp=["out/f.txt"]),
                     A.read("out/f.txt"), A.write_declared()]
    steps = [A.step(slow, inp=["src/a.txt"], out=["out/g.txt"]),
             A.step(prod, inp=["src/a.txt"], out=["out/f.txt", "out/f2.txt"]),
             A.step(cons, inp=["src/b.txt"], out=["out/c.txt"])]
    nfill = rng.randint(0, 2)
    for i in range(nfill):
        label = f"fill {i} -n{rng.randint(0, 3)}"
        scripts[label] = [A.read_declared(), *[A.nop() for _ in range(int(label[-1]))], A.write_declared()]
        steps.append(A.step(label, inp=[rng.choice(["src/a.txt", "src/b.txt"])], out=[f"out/fill{i}.txt"]))
    rng.shuffle(steps)
    plan = [A.static("src/a.txt", "src/b.txt"), *steps]
    scripts["./plan.py"] = plan
    project = Project(scripts=scripts, files={"src/a.txt": "a\n", "src/b.txt": "b\n", "plan.py": plan_file(plan)})
    return project, {"nfill": nfill, "producer": prod, "consumer": cons, "slow": slow}


def gen_tree_source_history(rng):
    """A plan tree and 2-4 phases that each touch exactly one source file: a plan file gets a new
    comment (only that plan is re-executed) or a source changes.  Returns `(initial project,
    events, source_only)` in the form `props.c04.evaluate` takes."""
    import projgen

    tree = gen_plan_tree(rng)
    initial = tree.render()
    events = [("build", {"njob": rng.randint(1, 3)})]
    source_only = []
    for _ in range(rng.randint(2, 4)):
        old = tree.render()
        tree, _ = mutate_plan_tree(rng, tree, rng.choice(["touch_plan", "touch_plan", "edit_source", "flip_shell"]))
        edits = projgen._edits_between(old, tree.render())
        events.append(("edits", edits))
        source_only.append(sorted(e[1] for e in edits))
        events.append(("build", {"njob": rng.randint(1, 3)}))
    return initial, events, source_only
